(** * C10 proofs, part 1: combinators and the guards that only compare integers (indices, sizes, shapes) *)
From Coq Require Import ZArith String List Bool Lia.
From LP Require Import Num C10_Model.
Import ListNotations.
Local Open Scope Z_scope.

(** [decides g P]: the guard model [g] accepts exactly the requests in the domain [P]: inside the domain the
    call returns (in particular no out-of-bounds access happens on the way), outside it exits. *)
Definition decides (g : res unit) (P : Prop) : Prop := (P -> g = Ok tt) /\ (~ P -> g = Exit).

Lemma decides_exit_iff g P : decides g P -> (g = Exit <-> ~ P).
Proof. intros [H1 H2]; split; [|exact H2]. intros He Hp. rewrite (H1 Hp) in He; discriminate. Qed.
Lemma decides_ok_iff g P : (P \/ ~ P) -> decides g P -> (g = Ok tt <-> P).
Proof. intros Hd [H1 H2]; split; [|exact H1]. intros Ho. destruct Hd as [|Hn]; [assumption|]. rewrite (H2 Hn) in Ho; discriminate. Qed.
Lemma decides_safe g P : (P \/ ~ P) -> decides g P -> g <> OOB /\ g <> Fuel.
Proof. intros [Hp|Hn] [H1 H2]; [rewrite (H1 Hp)|rewrite (H2 Hn)]; split; discriminate. Qed.
Lemma decides_iff g P Q : (P <-> Q) -> decides g P -> decides g Q.
Proof. intros E [H1 H2]; split; intros H; [apply H1|apply H2]; tauto. Qed.
Lemma decides_true g : g = Ok tt -> decides g True.
Proof. intros ->; split; tauto. Qed.
Lemma decides_exit_if b : decides (exit_if b) (b = false).
Proof. destruct b; split; cbn; intros; congruence. Qed.
Lemma decides_bind g1 g2 P1 P2 : (P1 \/ ~ P1) -> decides g1 P1 -> (P1 -> decides g2 P2) ->
  decides (rbind g1 (fun _ => g2)) (P1 /\ P2).
Proof.
  intros Hd [A1 A2] H; split.
  - intros [p1 p2]. rewrite (A1 p1); cbn. now apply (H p1).
  - intros Hn. destruct Hd as [p1|n1].
    + rewrite (A1 p1); cbn. apply (H p1). tauto.
    + now rewrite (A2 n1).
Qed.
Lemma decides_if (b : bool) g P : (b = false -> decides g P) -> decides (if b then Exit else g) (b = false /\ P).
Proof.
  destruct b; intros H.
  - split; [intros [? _]; discriminate|reflexivity].
  - destruct (H eq_refl) as [H1 H2]. split; [intros [_ p]; auto|intros Hn; apply H2; tauto].
Qed.

Lemma at_ok n i : 0 <= i < n -> at_ n i = Ok tt.
Proof. intros H; unfold at_. destruct (Z.ltb_spec i 0), (Z.leb_spec n i); try lia; reflexivity. Qed.
Lemma at_oob n i : ~ (0 <= i < n) -> at_ n i = OOB.
Proof. intros H; unfold at_. destruct (Z.ltb_spec i 0), (Z.leb_spec n i); try lia; reflexivity. Qed.
Lemma iter_ok n k : 0 <= k <= n -> iter_ n k = Ok tt.
Proof. intros H; unfold iter_. destruct (Z.ltb_spec k 0), (Z.ltb_spec n k); try lia; reflexivity. Qed.

Lemma getZ_nth {A} (l : list A) i d : 0 <= i < zlen l -> getZ l i = Ok (nth (Z.to_nat i) l d).
Proof.
  unfold zlen, getZ, get; intros H. destruct (Z.ltb_spec i 0); [lia|].
  destruct (nth_error l (Z.to_nat i)) eqn:E.
  - now rewrite (nth_error_nth _ _ d E).
  - apply nth_error_None in E. lia.
Qed.
Lemma getZ_oob {A} (l : list A) i : ~ (0 <= i < zlen l) -> getZ l i = OOB.
Proof.
  unfold zlen, getZ, get; intros H. destruct (Z.ltb_spec i 0); [reflexivity|].
  destruct (nth_error l (Z.to_nat i)) eqn:E; [|reflexivity].
  assert (nth_error l (Z.to_nat i) <> None) as Hn by congruence. apply nth_error_Some in Hn. lia.
Qed.
(** [at_] is [getZ] on any container of that many elements *)
Lemma at_length {A} (l : list A) i : at_ (zlen l) i = rmap (fun _ => tt) (getZ l i).
Proof.
  destruct (Z.ltb_spec i 0) as [Hi|Hi]; [rewrite at_oob, getZ_oob by lia; reflexivity|].
  destruct (Z.ltb_spec i (zlen l)) as [Hl|Hl]; [|rewrite at_oob, getZ_oob by lia; reflexivity].
  destruct l as [|a l]; [unfold zlen in Hl; cbn in Hl; lia|].
  rewrite at_ok, (getZ_nth _ _ a) by lia. reflexivity.
Qed.

Lemma for__ok fuel lo body : (forall i, lo <= i < lo + Z.of_nat fuel -> body i = Ok tt) -> for_ fuel lo body = Ok tt.
Proof.
  revert lo; induction fuel as [|f IH]; intros lo H; [reflexivity|].
  cbn [for_]. rewrite H by lia. cbn. apply IH. intros i Hi; apply H; lia.
Qed.
Lemma for_range_ok lo hi body : (forall i, lo <= i < hi -> body i = Ok tt) -> for_range lo hi body = Ok tt.
Proof. intros H; unfold for_range. apply for__ok. intros i Hi; apply H; lia. Qed.

Lemma for__decides fuel lo body (Q : Z -> Prop) :
  (forall i, lo <= i < lo + Z.of_nat fuel -> decides (body i) (Q i)) ->
  (forall i, lo <= i < lo + Z.of_nat fuel -> Q i \/ ~ Q i) ->
  decides (for_ fuel lo body) (forall i, lo <= i < lo + Z.of_nat fuel -> Q i).
Proof.
  revert lo; induction fuel as [|f IH]; intros lo H Hd.
  - split; [reflexivity|]. intros Hn; exfalso; apply Hn; intros; lia.
  - cbn [for_].
    assert (D : decides (rbind (body lo) (fun _ => for_ f (lo + 1) body)) (Q lo /\ forall i, lo + 1 <= i < lo + 1 + Z.of_nat f -> Q i)).
    { apply decides_bind; [apply Hd; lia|apply H; lia|]. intros _. apply IH; intros; [apply H|apply Hd]; lia. }
    eapply decides_iff; [|exact D]. split.
    + intros [q0 qr] i Hi. destruct (Z.eq_dec i lo) as [->|]; [assumption|apply qr; lia].
    + intros Hq; split; [apply Hq; lia|intros; apply Hq; lia].
Qed.
Lemma for_range_decides lo hi body (Q : Z -> Prop) :
  (forall i, lo <= i < hi -> decides (body i) (Q i)) -> (forall i, lo <= i < hi -> Q i \/ ~ Q i) ->
  decides (for_range lo hi body) (forall i, lo <= i < hi -> Q i).
Proof.
  intros H Hd. unfold for_range.
  destruct (Z.le_gt_cases lo hi) as [Hle|Hgt].
  - eapply decides_iff; [|apply (for__decides (Z.to_nat (hi - lo)) lo body Q)].
    + split; intros Hq i Hi; apply Hq; lia.
    + intros; apply H; lia.
    + intros; apply Hd; lia.
  - replace (Z.to_nat (hi - lo)) with O by lia. cbn. split; [reflexivity|]. intros Hn; exfalso; apply Hn; intros; lia.
Qed.

(** step tactic: discharge the next checked access / inner guard of a straight-line index computation *)
Lemma vec_index_ok dim i : 0 <= i < dim -> guard_vec_index dim i = Ok tt.
Proof. intros H; unfold guard_vec_index. destruct (Z.ltb_spec i 0), (Z.geb_spec i dim); try lia; cbn. now apply at_ok. Qed.
Lemma mat_index_ok rows i : 0 <= i < rows -> guard_mat_index rows i = Ok tt.
Proof. exact (vec_index_ok rows i). Qed.
Lemma row_ok rows i : 0 <= i < rows -> guard_row rows i = Ok tt.
Proof. exact (vec_index_ok rows i). Qed.
Ltac idx :=
  repeat first
    [ rewrite at_ok by lia | rewrite vec_index_ok by lia | rewrite mat_index_ok by lia | rewrite row_ok by lia
    | rewrite iter_ok by lia ]; cbn [rbind].
Ltac loops := repeat (apply for_range_ok; intros); idx; try reflexivity.

(** ** Index operators *)
Lemma vec_index_spec dim i : 0 <= i -> decides (guard_vec_index dim i) (i < dim).
Proof.
  intros Hi; split; intros H.
  - apply vec_index_ok; lia.
  - unfold guard_vec_index. destruct (Z.ltb_spec i 0), (Z.geb_spec i dim); try lia; reflexivity.
Qed.
Lemma mat_index_spec rows i : 0 <= i -> decides (guard_mat_index rows i) (i < rows).
Proof. exact (vec_index_spec rows i). Qed.
Lemma row_spec rows r : 0 <= r -> decides (guard_row rows r) (r < rows).
Proof. exact (vec_index_spec rows r). Qed.

Lemma neq_b (a b : Z) : negb (a =? b) = false <-> a = b.
Proof. destruct (Z.eqb_spec a b); cbn; split; intros; congruence. Qed.

(** ** Vector operations *)
Lemma vec_binary_spec d1 d2 : decides (guard_vec_binary d1 d2) (d1 = d2).
Proof.
  unfold guard_vec_binary. destruct (Z.eqb_spec d1 d2) as [->|Hn]; cbn.
  - split; [intros _|tauto]. loops.
  - split; [tauto|reflexivity].
Qed.
Lemma cross_spec d1 d2 : decides (guard_cross d1 d2) (d1 = 3 /\ d2 = 3).
Proof.
  unfold guard_cross. destruct (Z.eqb_spec d1 3) as [->|H1]; destruct (Z.eqb_spec d2 3) as [->|H2]; cbn [negb orb];
    split; intros H; try tauto; try lia; try reflexivity.
Qed.

(** operator*(Vector), Angle (whose only shape test is the one of Dot), operator== and the outer product *)
Lemma vec_mul_spec d1 d2 : decides (guard_vec_mul d1 d2) (d1 = d2).
Proof. exact (vec_binary_spec d1 d2). Qed.
Lemma angle_spec d1 d2 : decides (guard_angle d1 d2) (d1 = d2).
Proof.
  unfold guard_angle, guard_vec_mul. split; intros H.
  - subst d2. rewrite (proj1 (vec_binary_spec d1 d1) eq_refl). reflexivity.
  - rewrite (proj2 (vec_binary_spec d1 d2) H). reflexivity.
Qed.
Lemma vec_eq_returns d1 d2 : guard_vec_eq d1 d2 = Ok tt.
Proof.
  unfold guard_vec_eq. destruct (Z.eqb_spec d1 d2) as [->|Hn]; cbn [negb]; [|reflexivity]. loops.
Qed.
Lemma outer_returns d1 d2 : guard_outer d1 d2 = Ok tt.
Proof. unfold guard_outer. loops. Qed.

(** ** Matrix(vector<vector<double>>): the shape must be rectangular (an empty list is the 0x0 matrix) *)
Lemma mat_ctor_spec lens :
  decides (guard_mat_ctor lens) (forall i, 0 <= i < zlen lens -> nth (Z.to_nat i) lens 0 = nth 0 lens 0).
Proof.
  unfold guard_mat_ctor. destruct (Z.eqb_spec (zlen lens) 0) as [E|E]; cbn [rbind].
  - rewrite E. split; [reflexivity|]. intros Hn; exfalso; apply Hn; intros; lia.
  - assert (0 < zlen lens) by (unfold zlen in *; lia).
    rewrite (getZ_nth lens 0 0) by lia. cbn [rbind Z.to_nat].
    apply for_range_decides.
    + intros i Hi. rewrite (getZ_nth lens i 0) by lia. cbn [rbind].
      eapply decides_iff; [|apply decides_exit_if]. apply neq_b.
    + intros i Hi. destruct (Z.eq_dec (nth (Z.to_nat i) lens 0) (nth 0 lens 0)); tauto.
Qed.
Lemma zlen_rect r c : 0 <= r -> zlen (rect r c) = r.
Proof. intros; unfold zlen, rect. rewrite repeat_length. lia. Qed.
Lemma nth_rect r c i : nth i (rect r c) 0 = if (i <? Z.to_nat r)%nat then c else 0.
Proof.
  unfold rect. generalize (Z.to_nat r); intros n. revert i; induction n as [|n IH]; intros [|i]; cbn; auto.
  rewrite IH. reflexivity.
Qed.
Lemma mat_ctor_rect r c : 0 <= r -> guard_mat_ctor (rect r c) = Ok tt.
Proof.
  intros Hr. apply (mat_ctor_spec (rect r c)). rewrite zlen_rect by lia. intros i Hi.
  rewrite !nth_rect. destruct (Nat.ltb_spec (Z.to_nat i) (Z.to_nat r)), (Nat.ltb_spec 0 (Z.to_nat r)); try lia; reflexivity.
Qed.

(** ** Rows, columns, sub-matrices *)
Lemma delete_column_spec rows cols c : 0 <= c -> decides (guard_delete_column rows cols c) (c < cols).
Proof.
  intros Hc. unfold guard_delete_column. destruct (Z.ltb_spec c 0), (Z.geb_spec c cols); try lia; cbn.
  - split; [lia|reflexivity].
  - split; [intros _|lia]. loops.
Qed.
Lemma transpose_ok rows cols : 0 <= rows -> 0 <= cols -> guard_transpose rows cols = Ok tt.
Proof.
  intros. unfold guard_transpose.
  assert (for_range 0 rows (fun i => for_range 0 cols (fun j => rbind (at_ cols j) (fun _ => rbind (at_ rows i) (fun _ => rbind (at_ rows i) (fun _ => at_ cols j))))) = Ok tt) as -> by loops.
  cbn. now apply mat_ctor_rect.
Qed.
Lemma return_column_spec rows cols c : 0 <= rows -> 0 <= cols -> 0 <= c ->
  decides (guard_return_column rows cols c) (c < cols).
Proof.
  intros Hr Hcs Hc. unfold guard_return_column. destruct (Z.ltb_spec c 0), (Z.geb_spec c cols); try lia; cbn.
  - split; [lia|reflexivity].
  - split; [intros _|lia]. rewrite transpose_ok by lia. cbn. idx. reflexivity.
Qed.
Lemma u32_id z : 0 <= z < 4294967296 -> u32 z = z.
Proof. intros; unfold u32. now apply Z.mod_small. Qed.
Lemma u32_neg z : -4294967296 <= z < 0 -> u32 z = z + 4294967296.
Proof.
  intros; unfold u32. symmetry. apply (Z.mod_unique_pos z 4294967296 (-1)); lia.
Qed.
(** Sub_Matrix(int row, int column): both arguments are ints that are converted to unsigned *)
Lemma sub_matrix_spec rows cols r c :
  0 <= rows < 2147483648 -> 0 <= cols < 2147483648 -> -2147483648 <= r < 2147483648 -> -2147483648 <= c < 2147483648 ->
  decides (guard_sub_matrix rows cols r c) (0 <= r < rows /\ 0 <= c < cols).
Proof.
  intros Hrows Hcols Hr Hc. unfold guard_sub_matrix. rewrite mat_ctor_rect by lia. cbn [rbind].
  assert (Dr : decides (guard_row rows (u32 r)) (0 <= r < rows)).
  { destruct (Z.lt_ge_cases r 0).
    - rewrite u32_neg by lia. eapply decides_iff; [|apply row_spec; lia]. lia.
    - rewrite u32_id by lia. eapply decides_iff; [|apply row_spec; lia]. lia. }
  assert (Dc : decides (guard_delete_column (rows - 1) cols (u32 c)) (0 <= c < cols)).
  { destruct (Z.lt_ge_cases c 0).
    - rewrite u32_neg by lia. eapply decides_iff; [|apply delete_column_spec; lia]. lia.
    - rewrite u32_id by lia. eapply decides_iff; [|apply delete_column_spec; lia]. lia. }
  apply decides_bind; [lia|exact Dr|intros _; exact Dc].
Qed.

(** ** Sums, products, trace, determinant *)
Lemma mat_sum_loop_ok r c : guard_mat_sum_loop r c r c = Ok tt.
Proof. unfold guard_mat_sum_loop. loops. Qed.
Lemma mat_plus_spec r1 c1 r2 c2 : 0 <= r1 -> decides (guard_mat_plus r1 c1 r2 c2) (r1 = r2 /\ c1 = c2).
Proof.
  intros Hr. unfold guard_mat_plus. destruct (Z.eqb_spec r1 r2) as [<-|]; destruct (Z.eqb_spec c1 c2) as [<-|]; cbn [negb orb];
    split; intros H; try tauto; try lia; try reflexivity.
  rewrite mat_sum_loop_ok; cbn. now apply mat_ctor_rect.
Qed.
Lemma mat_pluseq_spec r1 c1 r2 c2 : decides (guard_mat_pluseq r1 c1 r2 c2) (r1 = r2 /\ c1 = c2).
Proof.
  unfold guard_mat_pluseq. destruct (Z.eqb_spec r1 r2) as [<-|]; destruct (Z.eqb_spec c1 c2) as [<-|]; cbn [negb orb];
    split; intros H; try tauto; try lia; try reflexivity.
  apply mat_sum_loop_ok.
Qed.
Lemma mat_product_spec r1 c1 r2 c2 : decides (guard_mat_product r1 c1 r2 c2) (c1 = r2).
Proof.
  unfold guard_mat_product. destruct (Z.eqb_spec c1 r2) as [<-|]; cbn [negb]; split; intros H; try tauto; try reflexivity.
  loops.
Qed.
Lemma mat_vec_spec rows cols d : decides (guard_mat_vec rows cols d) (d = cols).
Proof.
  unfold guard_mat_vec. destruct (Z.eqb_spec d cols) as [->|]; cbn [negb]; split; intros H; try tauto; try reflexivity.
  loops.
Qed.
Lemma vec_mat_spec d rows cols : decides (guard_vec_mat d rows cols) (d = rows).
Proof.
  unfold guard_vec_mat. destruct (Z.eqb_spec d rows) as [->|]; cbn [negb]; split; intros H; try tauto; try reflexivity.
  loops.
Qed.
Lemma trace_spec rows cols : decides (guard_trace rows cols) (rows = cols).
Proof.
  unfold guard_trace. destruct (Z.eqb_spec rows cols) as [->|]; cbn [negb]; split; intros H; try tauto; try reflexivity.
  loops.
Qed.
Lemma det_square_ok fuel n : 0 <= n < 2147483648 -> (1 <= fuel)%nat -> (Z.to_nat n <= fuel)%nat -> guard_det fuel n n = Ok tt.
Proof.
  revert n; induction fuel as [|f IH]; intros n Hn H1 Hf; [lia|].
  cbn [guard_det]. rewrite Z.eqb_refl. cbn [negb].
  destruct (Z.eqb_spec n 1) as [->|N1]; [reflexivity|].
  destruct (Z.eqb_spec n 2) as [->|N2]; [reflexivity|].
  assert (A : for_range 0 n (fun j => rbind (at_ n j) (fun _ => rbind (at_ n 0) (fun _ => rbind (at_ n j) (fun _ => guard_sub_matrix n n 0 j)))) = Ok tt).
  { apply for_range_ok; intros j Hj. idx. apply (sub_matrix_spec n n 0 j); lia. }
  rewrite A; cbn [rbind].
  apply for_range_ok; intros j Hj. idx. apply IH; lia.
Qed.
Lemma determinant_spec rows cols : 0 <= rows < 2147483648 -> decides (guard_determinant rows cols) (rows = cols).
Proof.
  intros Hr. unfold guard_determinant. split; intros H.
  - subst cols. apply det_square_ok; lia.
  - cbn [guard_det]. destruct (Z.eqb_spec rows cols); [contradiction|reflexivity].
Qed.
Lemma rotation_spec dim n : decides (guard_rotation dim n) (dim = 2 \/ (dim = 3 /\ n = 3)).
Proof.
  unfold guard_rotation. destruct (Z.eqb_spec dim 2) as [->|D2].
  - split; [intros _; reflexivity|tauto].
  - destruct (Z.eqb_spec dim 3) as [->|D3].
    + destruct (Z.eqb_spec n 3) as [->|N3]; cbn [negb]; split; intros H; try reflexivity; try tauto; lia.
    + split; [lia|reflexivity].
Qed.

(** ** Lists and utilities *)
Lemma transpose_lists_spec lens : (forall l, In l lens -> 0 <= l) ->
  decides (guard_transpose_lists lens) (forall i, 0 <= i < zlen lens -> nth (Z.to_nat i) lens 0 = nth 0 lens 0).
Proof.
  intros Hpos. unfold guard_transpose_lists. destruct (Z.eqb_spec (zlen lens) 0) as [E|E].
  - split; [reflexivity|]. intros Hn; exfalso; apply Hn; intros; lia.
  - assert (0 < zlen lens) by (unfold zlen in *; lia).
    rewrite (getZ_nth lens 0 0) by lia. cbn [rbind Z.to_nat].
    set (M := nth 0 lens 0).
    assert (D : decides (for_range 1 (zlen lens) (fun i => rbind (getZ lens i) (fun l => exit_if (negb (l =? M)))))
                        (forall i, 1 <= i < zlen lens -> nth (Z.to_nat i) lens 0 = M)).
    { apply for_range_decides.
      - intros i Hi. rewrite (getZ_nth lens i 0) by lia. cbn [rbind]. eapply decides_iff; [|apply decides_exit_if]. apply neq_b.
      - intros i Hi. destruct (Z.eq_dec (nth (Z.to_nat i) lens 0) M); tauto. }
    destruct D as [D1 D2]. split; intros H0.
    + rewrite D1 by (intros; apply H0; lia). cbn [rbind].
      apply for_range_ok; intros i Hi. apply for_range_ok; intros j Hj. idx.
      rewrite (getZ_nth lens i 0) by lia. cbn [rbind]. rewrite H0 by lia. fold M. now apply at_ok.
    + rewrite D2; [reflexivity|]. intros Hall. apply H0. intros i Hi.
      destruct (Z.eq_dec i 0) as [->|]; [reflexivity|apply Hall; lia].
Qed.
(** Sub_List never exits and its iterators are valid for every int i1 and every unsigned i2 *)
Lemma sub_list_ok size i1 i2 :
  0 <= size < 2147483648 -> -2147483648 <= i1 < 2147483648 -> 0 <= i2 < 4294967296 -> guard_sub_list size i1 i2 = Ok tt.
Proof.
  intros Hs H1 H2. unfold guard_sub_list.
  set (a := if i1 <? 0 then 0 else i1). assert (Ha : 0 <= a < 2147483648) by (unfold a; destruct (Z.ltb_spec i1 0); lia).
  rewrite (u32_id a) by lia.
  destruct (Z.eqb_spec size 0); [reflexivity|]. destruct (Z.geb_spec a size); [reflexivity|]. destruct (Z.ltb_spec i2 a); [reflexivity|].
  cbn [orb]. destruct (Z.geb_spec i2 size).
  - rewrite u32_id by lia. idx. destruct (Z.ltb_spec (size - 1 + 1) a); [lia|reflexivity].
  - idx. destruct (Z.ltb_spec (i2 + 1) a); [lia|reflexivity].
Qed.
Lemma import_list_spec e : decides (guard_import_list e) (e = true).
Proof. destruct e; split; cbn; intros; congruence. Qed.

Lemma zsum_nonneg l : (forall x, In x l -> 0 <= x) -> 0 <= zsum l.
Proof. induction l as [|a l IH]; cbn; intros H; [lia|]. assert (0 <= a) by (apply H; auto). assert (0 <= zsum l) by (apply IH; intros; apply H; auto). lia. Qed.

(** Import_Table: file present, more lines than ignored lines, at least one number, and every remaining line
    holds the same number of entries (= all entries / remaining lines); the unit list is empty or as long as a row *)
Lemma import_table_spec e per_line ignored ndims :
  let lines := zlen per_line in
  let ndata := zsum (skipn (Z.to_nat ignored) per_line) in
  0 <= ignored < 2147483648 -> lines < 2147483648 -> 0 <= ndata < 2147483648 -> 0 <= ndims ->
  decides (guard_import_table e per_line ignored ndims)
    (e = true /\ ignored < lines /\ 0 < ndata /\ ndata mod (lines - ignored) = 0 /\
     (forall i, ignored <= i < lines -> nth (Z.to_nat i) per_line 0 = ndata / (lines - ignored)) /\
     (ndims = 0 \/ ndims = ndata / (lines - ignored))).
Proof.
  intros lines ndata Hi Hl Hd Hnd. unfold guard_import_table. fold ndata. fold lines.
  destruct e; cbn [negb]; [|split; [intros [? _]; discriminate|reflexivity]].
  destruct (Z.leb_spec lines ignored) as [L|L]; cbn [orb]; [split; [lia|reflexivity]|].
  destruct (Z.eqb_spec ndata 0) as [N0|N0]; [split; [lia|reflexivity]|].
  rewrite u32_id by lia. set (rows := lines - ignored). assert (0 < rows) by (unfold rows; lia).
  destruct (Z.eqb_spec rows 0); [lia|].
  pose proof (Z.div_mod ndata rows ltac:(lia)) as DM. pose proof (Z.mod_pos_bound ndata rows ltac:(lia)) as MB.
  assert (0 <= ndata / rows) by (apply Z.div_pos; lia).
  assert (rows * (ndata / rows) <= ndata) by lia.
  rewrite u32_id by nia.
  destruct (Z.eqb_spec (rows * (ndata / rows)) ndata) as [E|E]; cbn [negb]; [|split; [intros (_ & _ & _ & M0 & _); lia|reflexivity]].
  assert (ndata mod rows = 0) by lia.
  eapply decides_iff with (P := (forall i, ignored <= i < lines -> nth (Z.to_nat i) per_line 0 = ndata / rows) /\ (ndims = 0 \/ ndims = ndata / rows)).
  { split; [intros [A B]; repeat split; auto; lia|intros (_ & _ & _ & _ & A & B); auto]. }
  apply decides_bind.
  - destruct (forallb (fun i => nth (Z.to_nat i) per_line 0 =? ndata / rows) (map (fun k => ignored + Z.of_nat k) (seq 0 (Z.to_nat rows)))) eqn:F.
    + left. intros i Hi'. rewrite forallb_forall in F. apply Z.eqb_eq, F. apply in_map_iff. exists (Z.to_nat (i - ignored)). split; [lia|]. apply in_seq. unfold rows. lia.
    + right. intros A. assert (forallb (fun i => nth (Z.to_nat i) per_line 0 =? ndata / rows) (map (fun k => ignored + Z.of_nat k) (seq 0 (Z.to_nat rows))) = true); [|congruence].
      apply forallb_forall. intros x Hx. apply in_map_iff in Hx. destruct Hx as (k & <- & Hk). apply in_seq in Hk. apply Z.eqb_eq, A. unfold rows in Hk. lia.
  - apply for_range_decides.
    + intros i Hi'. rewrite (getZ_nth per_line i 0) by (fold lines; lia). cbn [rbind]. eapply decides_iff; [|apply decides_exit_if]. apply neq_b.
    + intros i _. destruct (Z.eq_dec (nth (Z.to_nat i) per_line 0) (ndata / rows)); tauto.
  - intros _. destruct (Z.eqb_spec ndims 0) as [D0|D0]; cbn [negb andb].
    + split; [intros _|tauto].
      apply for_range_ok; intros i Hi'. apply for_range_ok; intros j Hj. idx. rewrite at_ok by nia. reflexivity.
    + destruct (Z.eqb_spec ndims (ndata / rows)) as [D1|D1]; cbn [negb].
      * split; [intros _|tauto].
        apply for_range_ok; intros i Hi'. apply for_range_ok; intros j Hj. idx. rewrite at_ok by nia. reflexivity.
      * split; [intros [?|?]; lia|reflexivity].
Qed.
(** in particular: a file whose remaining lines all hold c > 0 entries is read *)
Lemma zsum_const l c : (forall x, In x l -> x = c) -> zsum l = zlen l * c.
Proof.
  induction l as [|a l IH]; intros H; [reflexivity|]. unfold zlen in *; cbn [zsum length].
  rewrite (H a) by (left; reflexivity). rewrite IH by (intros; apply H; right; assumption). lia.
Qed.
Lemma nth_skipn' {A} (l : list A) n k d : nth k (skipn n l) d = nth (n + k) l d.
Proof. revert l; induction n as [|n IH]; intros l; [reflexivity|]. destruct l as [|a l]; [destruct k; reflexivity|]. cbn. apply IH. Qed.
Lemma import_table_uniform_ok per_line ignored ndims c :
  0 <= ignored < zlen per_line -> zlen per_line < 2147483648 -> 0 < c -> (zlen per_line - ignored) * c < 2147483648 ->
  (forall i, ignored <= i < zlen per_line -> nth (Z.to_nat i) per_line 0 = c) -> (ndims = 0 \/ ndims = c) ->
  guard_import_table true per_line ignored ndims = Ok tt.
Proof.
  intros Hi Hl Hc Hbig Hu Hd.
  assert (Hlen : zlen (skipn (Z.to_nat ignored) per_line) = zlen per_line - ignored) by (unfold zlen in *; rewrite skipn_length; lia).
  assert (Hs : zsum (skipn (Z.to_nat ignored) per_line) = (zlen per_line - ignored) * c).
  { rewrite <- Hlen. apply zsum_const. intros x Hx. destruct (In_nth _ _ 0 Hx) as (k & Hk & <-).
    rewrite nth_skipn'. replace (Z.to_nat ignored + k)%nat with (Z.to_nat (ignored + Z.of_nat k)) by lia. apply Hu.
    rewrite skipn_length in Hk. unfold zlen in *. lia. }
  assert (Hq : (zlen per_line - ignored) * c / (zlen per_line - ignored) = c) by (rewrite Z.mul_comm; apply Z.div_mul; lia).
  apply (import_table_spec true per_line ignored ndims); cbn zeta; rewrite ?Hs; try nia; try lia.
  rewrite Hq. repeat split; try lia; try nia; auto.
  rewrite Z.mul_comm. apply Z.mod_mul. lia.
Qed.

Lemma export_table_spec lens ndims : (forall l, In l lens -> 0 <= l) ->
  decides (guard_export_table lens ndims) (ndims = 0 \/ forall i, 0 <= i < zlen lens -> nth (Z.to_nat i) lens 0 = ndims).
Proof.
  intros Hpos. unfold guard_export_table.
  eapply decides_iff; [|apply (for_range_decides 0 (zlen lens) _ (fun i => ndims = 0 \/ nth (Z.to_nat i) lens 0 = ndims))].
  - split.
    + intros H. destruct (Z.eq_dec ndims 0); [tauto|right]. intros i Hi. destruct (H i Hi); [contradiction|assumption].
    + intros [H|H] i Hi; [tauto|right; now apply H].
  - intros i Hi. rewrite (getZ_nth lens i 0) by lia. cbn [rbind]. set (c := nth (Z.to_nat i) lens 0).
    destruct (Z.eqb_spec ndims 0) as [D0|D0]; cbn [negb andb].
    + split; [intros _|tauto]. loops.
    + destruct (Z.eqb_spec ndims c) as [D1|D1]; cbn [negb].
      * split; [intros _|intros Hn; exfalso; apply Hn; right; now rewrite D1]. loops.
      * split; [intros [?|?]; congruence|reflexivity].
  - intros i Hi. destruct (Z.eq_dec ndims 0); [tauto|]. destruct (Z.eq_dec (nth (Z.to_nat i) lens 0) ndims); tauto.
Qed.
Lemma in_units_table_spec lens ndims :
  decides (guard_in_units_table lens ndims) (forall i, 0 <= i < zlen lens -> nth (Z.to_nat i) lens 0 = ndims).
Proof.
  unfold guard_in_units_table. apply for_range_decides.
  - intros i Hi. rewrite (getZ_nth lens i 0) by lia. cbn [rbind]. set (c := nth (Z.to_nat i) lens 0).
    destruct (Z.eqb_spec c ndims) as [D1|D1]; cbn [negb].
    + split; [intros _|tauto]. rewrite D1. loops.
    + split; [congruence|reflexivity].
  - intros i Hi. destruct (Z.eq_dec (nth (Z.to_nat i) lens 0) ndims); tauto.
Qed.
Lemma workload_spec workers tasks : 0 <= workers < 4294967295 -> 0 <= tasks ->
  decides (guard_workload workers tasks) (1 <= workers).
Proof.
  intros Hw Ht. unfold guard_workload. destruct (Z.eqb_spec workers 0) as [->|W]; [split; [lia|reflexivity]|].
  split; [intros _|lia]. rewrite u32_id by lia.
  assert (for_range 0 workers (fun i => rbind (at_ (workers + 1) (i + 1)) (fun _ => at_ (workers + 1) i)) = Ok tt) as -> by loops.
  cbn [rbind]. pose proof (Z.mod_pos_bound tasks workers ltac:(lia)). loops.
Qed.
Lemma minimize_deltas_spec ns nd : 0 <= ns -> decides (guard_minimize_deltas ns nd) (nd = ns).
Proof.
  intros Hn. unfold guard_minimize_deltas. destruct (Z.eqb_spec nd ns) as [->|]; cbn [negb]; split; intros H; try tauto; try reflexivity.
  apply for_range_ok; intros i Hi.
  assert (for_range 0 ns (fun j => rbind (at_ (ns + 1) i) (fun _ => rbind (at_ ns j) (fun _ => at_ ns j))) = Ok tt) as -> by loops.
  cbn [rbind]. destruct (Z.eqb_spec i 0); cbn [negb]; [reflexivity|]. idx. reflexivity.
Qed.
(** Perform_KDE: the pseudo-data indices 2i, 3i stay below N for i < N/3 *)
Lemma kde_ok n : 0 <= n -> guard_kde n = Ok tt.
Proof.
  intros Hn. unfold guard_kde. apply for_range_ok; intros i Hi. idx.
  destruct (Z.ltb_spec i (n / 3)); [|reflexivity].
  assert (3 * (n / 3) <= n) by (apply Z.mul_div_le; lia). idx. reflexivity.
Qed.

(** ** Method names *)
Lemma str_in_In (s : string) (l : list string) : str_in s l = true <-> In s l.
Proof.
  induction l as [|a l IH]; cbn; [split; [discriminate|tauto]|].
  destruct (String.eqb_spec s a) as [->|N]; [tauto|]. rewrite IH. split; [tauto|intros [?|?]; [congruence|assumption]].
Qed.
Lemma str_in_dec (s : string) (l : list string) : In s l \/ ~ In s l.
Proof. destruct (str_in s l) eqn:E; [left; now apply str_in_In|right; intros H; apply str_in_In in H; congruence]. Qed.
Lemma integrate_spec m : decides (guard_integrate m) (In m methods_1d).
Proof.
  unfold guard_integrate. eapply decides_iff; [|apply decides_exit_if].
  destruct (str_in m methods_1d) eqn:E; cbn.
  - assert (In m methods_1d) by (now apply str_in_In). split; [intros; assumption|reflexivity].
  - assert (~ In m methods_1d) by (intros Hi; apply str_in_In in Hi; congruence). split; [discriminate|intros; contradiction].
Qed.
Lemma integrate_nd_spec m : decides (guard_integrate_nd m) (In m methods_1d \/ In m methods_mc).
Proof.
  unfold guard_integrate_nd. pose proof (str_in_In m methods_1d) as A. pose proof (str_in_In m methods_mc) as B.
  destruct (str_in m methods_1d), (str_in m methods_mc); split; intros H; try reflexivity; try tauto.
  destruct H as [H|H]; [apply A in H|apply B in H]; discriminate.
Qed.
Lemma integrate_mc_spec m : decides (guard_integrate_mc m) (In m methods_mc).
Proof.
  unfold guard_integrate_mc. eapply decides_iff; [|apply decides_exit_if].
  destruct (str_in m methods_mc) eqn:E; cbn.
  - assert (In m methods_mc) by (now apply str_in_In). split; [intros; assumption|reflexivity].
  - assert (~ In m methods_mc) by (intros Hi; apply str_in_In in Hi; congruence). split; [discriminate|intros; contradiction].
Qed.
Lemma gauss_legendre_spec nf lens : 0 <= nf ->
  decides (guard_gauss_legendre nf lens) (nf = zlen lens /\ forall i, 0 <= i < zlen lens -> nth (Z.to_nat i) lens 0 = 2).
Proof.
  intros Hnf. unfold guard_gauss_legendre. destruct (Z.eqb_spec nf (zlen lens)) as [->|N]; cbn [negb]; [|split; [tauto|reflexivity]].
  eapply decides_iff with (P := (forall i, 0 <= i < zlen lens -> nth (Z.to_nat i) lens 0 = 2) /\ True); [tauto|].
  apply decides_bind.
  - destruct (forallb (fun l => l =? 2) lens) eqn:E.
    + left. intros i Hi. rewrite forallb_forall in E. apply Z.eqb_eq, E, nth_In. unfold zlen in Hi; lia.
    + right. intros H. assert (forallb (fun l => l =? 2) lens = true); [|congruence].
      apply forallb_forall. intros x Hx. destruct (In_nth _ _ 0 Hx) as (k & Hk & <-).
      apply Z.eqb_eq. rewrite <- (Nat2Z.id k). apply H. unfold zlen; lia.
  - apply for_range_decides.
    + intros i Hi. rewrite (getZ_nth lens i 0) by lia. cbn [rbind]. eapply decides_iff; [|apply decides_exit_if]. apply neq_b.
    + intros i Hi. destruct (Z.eq_dec (nth (Z.to_nat i) lens 0) 2); tauto.
  - intros H. apply decides_true. apply for_range_ok; intros i Hi. idx.
    rewrite (getZ_nth lens i 0) by lia. cbn [rbind]. rewrite H by lia. reflexivity.
Qed.

(** ** Sizes in Statistics.cpp, integer guards in Special_Functions.cpp *)
Lemma metropolis_spec n : decides (guard_metropolis n) (n = 0 \/ n = 2).
Proof.
  unfold guard_metropolis. destruct (Z.eqb_spec n 0) as [->|]; [split; [reflexivity|tauto]|].
  destruct (Z.eqb_spec n 2) as [->|]; [split; [reflexivity|tauto]|]. split; [lia|reflexivity].
Qed.
Lemma metropolis_2d_spec n : decides (guard_metropolis_2d n) (n = 0 \/ n = 4).
Proof.
  unfold guard_metropolis_2d. destruct (Z.eqb_spec n 0) as [->|]; [split; [reflexivity|tauto]|].
  destruct (Z.eqb_spec n 4) as [->|]; [split; [reflexivity|tauto]|]. split; [lia|reflexivity].
Qed.
Lemma binned_spec np no nb : decides (guard_binned np no nb) (no = np /\ (nb = 0 \/ nb = np)).
Proof.
  unfold guard_binned. destruct (Z.eqb_spec nb 0) as [->|B0].
  - rewrite Z.eqb_refl. destruct (Z.eqb_spec no np) as [->|]; cbn [negb orb]; split; intros H; try tauto; try reflexivity. loops.
  - destruct (Z.eqb_spec no np) as [->|]; destruct (Z.eqb_spec nb np) as [->|]; cbn [negb orb]; split; intros H; try tauto; try reflexivity; try lia.
    loops.
Qed.
Lemma factorial_spec memo n : 0 <= n -> decides (guard_factorial memo n) (n <= 170).
Proof.
  intros Hn. unfold guard_factorial. destruct (Z.gtb_spec n 170); [split; [lia|reflexivity]|].
  split; [intros _|lia]. destruct (Z.ltb_spec n memo); [now apply at_ok|reflexivity].
Qed.
Lemma vsh_spec c : decides (guard_vsh c) (0 <= c <= 2).
Proof.
  unfold guard_vsh. destruct (Z.eqb_spec c 0), (Z.eqb_spec c 1), (Z.eqb_spec c 2); cbn [orb]; split; intros; try reflexivity; lia.
Qed.
