(** * C18 proofs, part 9: the walls of a bounded Metropolis domain.  The domain is CLOSED and has NO tolerance band:
    a candidate that compares below domain[0] or above domain[1] -- by any amount, one unit in the last place included --
    has acceptance probability exactly 0 (for every number type, so verbatim for doubles: the test is the comparison of the
    number type and nothing else), a candidate ON a wall or between the walls is judged by the density alone (the bounded
    acceptance probability is the unbounded one there). *)
From Coq Require Import ZArith List Bool Lia Arith Reals Lra Psatz.
From LP Require Import Num NumR C18_Model C18_Proofs C18_Proofs_R.
Import ListNotations.

Section AnyNumberType.
Context {T : Type} (Ops : NumOps T).

Lemma accept1_wall_any_ops (PDF : T -> T) lo hi x cand :
  nltb Ops cand lo = true \/ nltb Ops hi cand = true ->
  accept1 Ops PDF (Some (lo, hi)) x cand = n0 Ops.
Proof.
  intros H. unfold accept1, ngtb. destruct H as [H|H]; rewrite H; [reflexivity|].
  now rewrite orb_true_r.
Qed.

Lemma accept1_inside_any_ops (PDF : T -> T) lo hi x cand :
  nltb Ops cand lo = false -> nltb Ops hi cand = false ->
  accept1 Ops PDF (Some (lo, hi)) x cand = accept1 Ops PDF None x cand.
Proof. intros H1 H2. unfold accept1, ngtb. now rewrite H1, H2. Qed.

Lemma accept2_wall_any_ops (PDF : T -> T -> T) x0 x1 y0 y1 x cand :
  nltb Ops (fst cand) x0 = true \/ nltb Ops x1 (fst cand) = true \/
  nltb Ops (snd cand) y0 = true \/ nltb Ops y1 (snd cand) = true ->
  accept2 Ops PDF (Some (x0, x1, y0, y1)) x cand = n0 Ops.
Proof.
  intros H. unfold accept2, ngtb. destruct H as [H|[H|[H|H]]]; rewrite H;
    rewrite ?orb_true_r, ?orb_true_l; reflexivity.
Qed.

Lemma accept2_inside_any_ops (PDF : T -> T -> T) x0 x1 y0 y1 x cand :
  nltb Ops (fst cand) x0 = false -> nltb Ops x1 (fst cand) = false ->
  nltb Ops (snd cand) y0 = false -> nltb Ops y1 (snd cand) = false ->
  accept2 Ops PDF (Some (x0, x1, y0, y1)) x cand = accept2 Ops PDF None x cand.
Proof. intros H1 H2 H3 H4. unfold accept2, ngtb. now rewrite H1, H2, H3, H4. Qed.
End AnyNumberType.

Local Open Scope R_scope.

(** reals: the closed domain, walls included *)
Lemma accept1_closed_domain PDF lo hi x y : lo <= y <= hi ->
  accept1 ROps PDF (Some (lo, hi)) x y = accept1 ROps PDF None x y.
Proof.
  intros Hy. apply accept1_inside_any_ops; cbn [nltb ROps].
  - destruct (Rltb_spec y lo); [lra|reflexivity].
  - destruct (Rltb_spec hi y); [lra|reflexivity].
Qed.

(** no tolerance band: every eps > 0, however small *)
Lemma accept1_no_tolerance_band PDF lo hi x eps : 0 < eps ->
  accept1 ROps PDF (Some (lo, hi)) x (hi + eps) = 0 /\ accept1 ROps PDF (Some (lo, hi)) x (lo - eps) = 0.
Proof. intros He. split; apply accept1_bounded_outside; lra. Qed.

Lemma accept2_closed_domain PDF x0 x1 y0 y1 x c : x0 <= fst c <= x1 -> y0 <= snd c <= y1 ->
  accept2 ROps PDF (Some (x0, x1, y0, y1)) x c = accept2 ROps PDF None x c.
Proof.
  intros Hx Hy. apply accept2_inside_any_ops; cbn [nltb ROps].
  - destruct (Rltb_spec (fst c) x0); [lra|reflexivity].
  - destruct (Rltb_spec x1 (fst c)); [lra|reflexivity].
  - destruct (Rltb_spec (snd c) y0); [lra|reflexivity].
  - destruct (Rltb_spec y1 (snd c)); [lra|reflexivity].
Qed.

(** non-vacuity: a candidate ON the upper wall of [0,1] with the density 2x, from x = 1/2: acceptance min(1, 2/1) = 1;
    a candidate beyond the wall by 2^-60: acceptance 0 *)
Example wall_example :
  accept1 ROps (fun x => 2 * x) (Some (0, 1)) (1/2) 1 = 1 /\
  accept1 ROps (fun x => 2 * x) (Some (0, 1)) (1/2) (1 + / 2 ^ 60) = 0.
Proof.
  split.
  - rewrite accept1_closed_domain by lra. rewrite accept1_unbounded.
    replace (2 * 1 / (2 * (1/2))) with 2 by field. apply Rmin_left. lra.
  - apply (proj1 (accept1_no_tolerance_band (fun x => 2 * x) 0 1 (1/2) (/ 2 ^ 60) ltac:(apply Rinv_0_lt_compat, pow_lt; lra))).
Qed.
