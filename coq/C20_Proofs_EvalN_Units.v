(** * C20 — the any-number-type theorems instantiated on the definitions REGENERATED from src/Natural_Units.cpp *)
From Coq Require Import String.
From Coq Require Import ZArith Bool Reals List.
From LP Require Import Num NumR C20_Model C20_Model2 C20_Proofs_Init C20_Proofs_EvalN Gen_C20_Units.
Import ListNotations.
Local Open Scope string_scope.

(** the real denotation solves the regenerated equations also when they are evaluated by the polymorphic evaluator *)
Lemma den_solvesN : solvesN ROps PI den defs.
Proof. intros x b H. rewrite evalN_R. exact (den_solves x b H). Qed.

(** whenever the model's compile-time folding of a constant terminates, it is the constant's denotation *)
Lemma units_fold_is_denotation x v : fold_const ROps PI defs x = Ok v -> v = den x.
Proof. apply fold_const_sound. exact den_solvesN. Qed.

(** ... and it does terminate, e.g. for Joule (defined before kg, meter, sec) *)
Example fold_Joule_terminates : exists v, fold_const ROps PI defs "Joule" = Ok v.
Proof. eexists. vm_compute. reflexivity. Qed.

Lemma units_startupN_sound st : safe st defs = true ->
  forall x b, In (x, b) defs -> startupN ROps PI st defs den x = den x.
Proof. intros Hs. exact (init_order_sound_N ROps PI st defs den den_solvesN Hs). Qed.
