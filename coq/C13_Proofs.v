(** * C13 proofs: dispatch of the named methods, nested integrals, separability, Monte-Carlo region layout,
    spherical overload.  Over the real-number instance [ROps] and Coquelicot's [RInt]. *)
From Coq Require Import Reals ZArith List Lra Lia Bool String FunctionalExtensionality.
From Coquelicot Require Import Coquelicot.
From LP Require Import Num NumR C13_Model.
Import ListNotations.
Local Open Scope R_scope.

(** ** The method names *)
Lemma parse_known :
  parse_method "Trapezoidal" = M_Trapezoidal /\ parse_method "Gauss-Legendre" = M_GaussLegendre /\
  parse_method "Gauss-Kronrod" = M_GaussKronrod /\ parse_method "Tanh-Sinh" = M_TanhSinh /\
  parse_method "Gauss-Legendre_2" = M_GaussLegendre2 /\ parse_method "Adaptive-Simpson" = M_AdaptiveSimpson /\
  parse_method "Monte-Carlo" = M_MonteCarlo /\ parse_method "Vegas" = M_Vegas /\ parse_method "Miser" = M_Miser.
Proof. repeat split; reflexivity. Qed.

Lemma parse_unknown (s : string) :
  s <> "Trapezoidal"%string -> s <> "Gauss-Legendre"%string -> s <> "Gauss-Kronrod"%string -> s <> "Tanh-Sinh"%string ->
  s <> "Gauss-Legendre_2"%string -> s <> "Adaptive-Simpson"%string ->
  is_nested_method (parse_method s) = false.
Proof.
  intros H1 H2 H3 H4 H5 H6. unfold parse_method.
  apply String.eqb_neq in H1, H2, H3, H4, H5, H6. rewrite H1, H2, H3, H4, H5, H6.
  repeat (match goal with |- context [String.eqb ?a ?b] => destruct (String.eqb a b) end; try reflexivity).
Qed.

Section Dispatch.
Variable I : backend -> (R -> res R) -> R -> R -> res R.
Notation IN := (integrate_named ROps I).

(** the call a known method name delegates to, on ordered limits *)
Definition selected (m : method) (p : Z) (f : R -> res R) (lo hi : R) : res R :=
  match m with
  | M_Trapezoidal => I B_trapezoidal f lo hi
  | M_GaussLegendre => I B_gauss30 f lo hi
  | M_GaussKronrod => I (B_kronrod31 (if (p =? 0)%Z then 5%Z else p)) f lo hi
  | M_TanhSinh => I B_tanh_sinh f lo hi
  | M_GaussLegendre2 => gl_integrate ROps f lo hi (if (p =? 0)%Z then 30%Z else p)
  | M_AdaptiveSimpson =>
      rbind (find_epsilon ROps f lo hi (1 / 1000000000)) (fun eps => integrate_eps ROps f lo hi eps 20)
  | _ => Exit
  end.

Lemma check_limits_lt a b : a < b -> check_limits ROps a b = (a, b, 1).
Proof. intros H. unfold check_limits, ngtb; cbn. destruct (Rltb_spec b a); [lra | reflexivity]. Qed.
Lemma check_limits_gt a b : b < a -> check_limits ROps a b = (b, a, -1).
Proof. intros H. unfold check_limits, ngtb; cbn. destruct (Rltb_spec b a); [f_equal | lra]. Qed.

Lemma dispatch_unknown m f a b p : is_nested_method m = false -> IN m f a b p = Exit.
Proof. intros H. unfold integrate_named. rewrite H. reflexivity. Qed.

Lemma dispatch_equal m f a p : is_nested_method m = true -> IN m f a a p = Ok 0.
Proof.
  intros H. unfold integrate_named. rewrite H. cbn.
  destruct (Reqb_spec a a); [reflexivity | congruence].
Qed.

Lemma dispatch_forward m f a b p : is_nested_method m = true -> a < b ->
  IN m f a b p = rmap (fun r => r) (selected m p f a b).
Proof.
  intros H Hab. unfold integrate_named. rewrite H. cbn [negb].
  replace (neqb ROps a b) with false by (cbn; destruct (Reqb_spec a b); [lra | reflexivity]).
  rewrite (check_limits_lt _ _ Hab).
  destruct m; try discriminate H; cbn -[gl_integrate find_epsilon integrate_eps]; unfold rmap, ndec; cbn -[gl_integrate find_epsilon integrate_eps];
    match goal with |- rbind ?x _ = rbind ?y _ => destruct x eqn:E end; cbn; try reflexivity; try (f_equal; ring).
  destruct (integrate_eps ROps f a b a0 20); cbn; try reflexivity. f_equal; ring.
Qed.

Lemma dispatch_reversed m f a b p : is_nested_method m = true -> b < a ->
  IN m f a b p = rmap Ropp (selected m p f b a).
Proof.
  intros H Hab. unfold integrate_named. rewrite H. cbn [negb].
  replace (neqb ROps a b) with false by (cbn; destruct (Reqb_spec a b); [lra | reflexivity]).
  rewrite (check_limits_gt _ _ Hab).
  destruct m; try discriminate H; cbn -[gl_integrate find_epsilon integrate_eps]; unfold rmap, ndec; cbn -[gl_integrate find_epsilon integrate_eps];
    match goal with |- rbind ?x _ = rbind ?y _ => destruct x eqn:E end; cbn; try reflexivity; try (f_equal; ring).
  destruct (integrate_eps ROps f b a a0 20); cbn; try reflexivity. f_equal; ring.
Qed.

(** reversing the limits negates the result (whatever the back end returns) *)
Lemma reversed_negates m f a b p : a <> b -> IN m f b a p = rmap Ropp (IN m f a b p).
Proof.
  intros Hne. destruct (is_nested_method m) eqn:H.
  2:{ rewrite !dispatch_unknown by assumption. reflexivity. }
  destruct (Rtotal_order a b) as [Hlt | [Heq | Hgt]]; [| contradiction |].
  - rewrite (dispatch_reversed m f b a p H Hlt), (dispatch_forward m f a b p H Hlt).
    destruct (selected m p f a b); reflexivity.
  - rewrite (dispatch_forward m f b a p H Hgt), (dispatch_reversed m f a b p H Hgt).
    destruct (selected m p f b a); cbn; try reflexivity. f_equal; ring.
Qed.

(** equal limits: 0, whatever the back end and the integrand are (neither is called) *)
Lemma equal_limits_no_call (I' : backend -> (R -> res R) -> R -> R -> res R) m f f' a p :
  is_nested_method m = true -> IN m f a a p = Ok 0 /\ integrate_named ROps I' m f' a a p = Ok 0.
Proof.
  intros H. split; [apply dispatch_equal; assumption |].
  unfold integrate_named. rewrite H. cbn. destruct (Reqb_spec a a); [reflexivity | congruence].
Qed.

(** ** Exact back ends give RInt, for every orientation of the limits *)
Definition okf (g : R -> R) : R -> res R := fun x => Ok (g x).

(** [J] returns the exact integral on every integrable integrand *)
Definition exact_on_integrable (J : (R -> res R) -> R -> R -> res R) : Prop :=
  forall g u v, ex_RInt g u v -> J (okf g) u v = Ok (RInt g u v).

Lemma named_exact m p :
  is_nested_method m = true ->
  (forall g lo hi, lo < hi -> ex_RInt g lo hi -> selected m p (okf g) lo hi = Ok (RInt g lo hi)) ->
  exact_on_integrable (fun g u v => IN m g u v p).
Proof.
  intros H Hsel g a b Hex.
  destruct (Rtotal_order a b) as [Hlt | [Heq | Hgt]].
  - rewrite (dispatch_forward _ _ _ _ _ H Hlt), (Hsel _ _ _ Hlt Hex). reflexivity.
  - subst b. rewrite (dispatch_equal _ _ _ _ H). rewrite RInt_point. reflexivity.
  - rewrite (dispatch_reversed _ _ _ _ _ H Hgt), (Hsel _ _ _ Hgt (ex_RInt_swap _ _ _ Hex)). cbn.
    f_equal. apply (opp_RInt_swap g b a). apply ex_RInt_swap; assumption.
Qed.
End Dispatch.

(** ** Integrands defined through an integral: Integrate is re-entered while it evaluates its integrand, with any
    method name and method_parameter at either level.  With exact back ends the result is the integral of
    x |-> outer x (integral of inner x between lo x and hi x). *)
Lemma reentrant_integrand_exact I mi q (outer inner : R -> R -> R) (lo hi : R -> R) :
  is_nested_method mi = true ->
  (forall g lo hi, lo < hi -> ex_RInt g lo hi -> selected I mi q (okf g) lo hi = Ok (RInt g lo hi)) ->
  (forall x, ex_RInt (inner x) (lo x) (hi x)) ->
  reentrant_integrand ROps I mi q outer inner lo hi = okf (fun x => outer x (RInt (inner x) (lo x) (hi x))).
Proof.
  intros Hmi Hsi Hin. apply functional_extensionality; intros x. unfold okf, reentrant_integrand.
  change (fun t : R => Ok (inner x t)) with (okf (inner x)).
  rewrite (named_exact I mi q Hmi Hsi (inner x) (lo x) (hi x) (Hin x)). reflexivity.
Qed.

Lemma reentrant_exact I m p mi q (outer inner : R -> R -> R) (lo hi : R -> R) a b :
  is_nested_method m = true -> is_nested_method mi = true ->
  (forall g lo hi, lo < hi -> ex_RInt g lo hi -> selected I m p (okf g) lo hi = Ok (RInt g lo hi)) ->
  (forall g lo hi, lo < hi -> ex_RInt g lo hi -> selected I mi q (okf g) lo hi = Ok (RInt g lo hi)) ->
  (forall x, ex_RInt (inner x) (lo x) (hi x)) ->
  ex_RInt (fun x => outer x (RInt (inner x) (lo x) (hi x))) a b ->
  integrate_reentrant ROps I m p mi q outer inner lo hi a b
  = Ok (RInt (fun x => outer x (RInt (inner x) (lo x) (hi x))) a b).
Proof.
  intros Hm Hmi Hs Hsi Hin Hout. unfold integrate_reentrant.
  rewrite (reentrant_integrand_exact I mi q outer inner lo hi Hmi Hsi Hin).
  apply (named_exact I m p Hm Hs). assumption.
Qed.

(** ** Nesting: each argument position carries the variable of its own limits *)
Lemma nest_2d_exact J (f : R -> R -> R) x1 x2 y1 y2 :
  exact_on_integrable J ->
  (forall x, ex_RInt (fun y => f x y) y1 y2) ->
  ex_RInt (fun x => RInt (fun y => f x y) y1 y2) x1 x2 ->
  nest_2d J f x1 x2 y1 y2 = Ok (RInt (fun x => RInt (fun y => f x y) y1 y2) x1 x2).
Proof.
  intros HJ Hin Hout. unfold nest_2d.
  replace (fun x : R => J (fun y : R => Ok (f x y)) y1 y2) with (okf (fun x => RInt (fun y => f x y) y1 y2)).
  - apply HJ; assumption.
  - apply functional_extensionality; intros x. unfold okf. symmetry. apply (HJ (fun y => f x y)). apply Hin.
Qed.

Lemma nest_3d_exact J (f : R -> R -> R -> R) x1 x2 y1 y2 z1 z2 :
  exact_on_integrable J ->
  (forall x y, ex_RInt (fun z => f x y z) z1 z2) ->
  (forall x, ex_RInt (fun y => RInt (fun z => f x y z) z1 z2) y1 y2) ->
  ex_RInt (fun x => RInt (fun y => RInt (fun z => f x y z) z1 z2) y1 y2) x1 x2 ->
  nest_3d J f x1 x2 y1 y2 z1 z2 = Ok (RInt (fun x => RInt (fun y => RInt (fun z => f x y z) z1 z2) y1 y2) x1 x2).
Proof.
  intros HJ Hz Hy Hx. unfold nest_3d.
  replace (fun x : R => J (fun y : R => J (fun z : R => Ok (f x y z)) z1 z2) y1 y2)
    with (okf (fun x => RInt (fun y => RInt (fun z => f x y z) z1 z2) y1 y2)).
  - apply HJ; assumption.
  - apply functional_extensionality; intros x. unfold okf. symmetry.
    replace (fun y : R => J (fun z : R => Ok (f x y z)) z1 z2) with (okf (fun y => RInt (fun z => f x y z) z1 z2)).
    + apply HJ. apply Hy.
    + apply functional_extensionality; intros y. unfold okf. symmetry. apply (HJ (fun z => f x y z)). apply Hz.
Qed.

Section FrontEnds.
Variable I : backend -> (R -> res R) -> R -> R -> res R.
Variable MC : method -> (list R -> R) -> list R -> Z -> res R.

Lemma integrate_2d_nested m f x1 x2 y1 y2 p : is_nested_method m = true ->
  integrate_2d ROps I MC m f x1 x2 y1 y2 p = nest_2d (fun g u v => integrate_named ROps I m g u v p) f x1 x2 y1 y2.
Proof. intros H. unfold integrate_2d. rewrite H. reflexivity. Qed.

Lemma integrate_3d_nested m f x1 x2 y1 y2 z1 z2 p : is_nested_method m = true ->
  integrate_3d ROps I MC m f x1 x2 y1 y2 z1 z2 p = nest_3d (fun g u v => integrate_named ROps I m g u v p) f x1 x2 y1 y2 z1 z2.
Proof. intros H. unfold integrate_3d. rewrite H. reflexivity. Qed.

Lemma integrate_2d_unknown m f x1 x2 y1 y2 p : is_nested_method m = false -> is_mc_method m = false ->
  integrate_2d ROps I MC m f x1 x2 y1 y2 p = Exit.
Proof. intros H1 H2. unfold integrate_2d. rewrite H1, H2. reflexivity. Qed.

Lemma integrate_3d_unknown m f x1 x2 y1 y2 z1 z2 p : is_nested_method m = false -> is_mc_method m = false ->
  integrate_3d ROps I MC m f x1 x2 y1 y2 z1 z2 p = Exit.
Proof. intros H1 H2. unfold integrate_3d. rewrite H1, H2. reflexivity. Qed.

(** the Monte-Carlo branch: region {x1,y1,x2,y2} / {x1,y1,z1,x2,y2,z2}, 30000 default calls, func(args[0],args[1](,args[2])) *)
Lemma mc_region_layout_2d m f x1 x2 y1 y2 p : is_mc_method m = true ->
  integrate_2d ROps I MC m f x1 x2 y1 y2 p =
  MC m (fun args => f (nth 0 args 0) (nth 1 args 0)) [x1; y1; x2; y2] (if (p =? 0)%Z then 30000%Z else p).
Proof. intros H. destruct m; try discriminate H; reflexivity. Qed.

Lemma mc_region_layout_3d m f x1 x2 y1 y2 z1 z2 p : is_mc_method m = true ->
  integrate_3d ROps I MC m f x1 x2 y1 y2 z1 z2 p =
  MC m (fun args => f (nth 0 args 0) (nth 1 args 0) (nth 2 args 0)) [x1; y1; z1; x2; y2; z2] (if (p =? 0)%Z then 30000%Z else p).
Proof. intros H. destruct m; try discriminate H; reflexivity. Qed.

(** Integrate_2D / Integrate_3D with a method whose back end is exact *)
Theorem integrate_2d_exact m p f x1 x2 y1 y2 :
  is_nested_method m = true ->
  (forall g lo hi, lo < hi -> ex_RInt g lo hi -> selected I m p (okf g) lo hi = Ok (RInt g lo hi)) ->
  (forall x, ex_RInt (fun y => f x y) y1 y2) ->
  ex_RInt (fun x => RInt (fun y => f x y) y1 y2) x1 x2 ->
  integrate_2d ROps I MC m f x1 x2 y1 y2 p = Ok (RInt (fun x => RInt (fun y => f x y) y1 y2) x1 x2).
Proof.
  intros H Hsel Hin Hout. rewrite integrate_2d_nested by assumption.
  apply nest_2d_exact; try assumption. apply named_exact; assumption.
Qed.

Theorem integrate_3d_exact m p f x1 x2 y1 y2 z1 z2 :
  is_nested_method m = true ->
  (forall g lo hi, lo < hi -> ex_RInt g lo hi -> selected I m p (okf g) lo hi = Ok (RInt g lo hi)) ->
  (forall x y, ex_RInt (fun z => f x y z) z1 z2) ->
  (forall x, ex_RInt (fun y => RInt (fun z => f x y z) z1 z2) y1 y2) ->
  ex_RInt (fun x => RInt (fun y => RInt (fun z => f x y z) z1 z2) y1 y2) x1 x2 ->
  integrate_3d ROps I MC m f x1 x2 y1 y2 z1 z2 p =
  Ok (RInt (fun x => RInt (fun y => RInt (fun z => f x y z) z1 z2) y1 y2) x1 x2).
Proof.
  intros H Hsel Hz Hy Hx. rewrite integrate_3d_nested by assumption.
  apply nest_3d_exact; try assumption. apply named_exact; assumption.
Qed.
End FrontEnds.

(** ** Separable integrands *)
(* Coquelicot states its lemmas on the carrier of R_CompleteNormedModule; [ring] wants the equation on R itself *)
Ltac rring := match goal with |- @eq _ ?a ?b => change (@eq R a b) end; ring.
Lemma RInt_scal_l (g : R -> R) a b k : ex_RInt g a b -> RInt (fun x => k * g x) a b = k * RInt g a b.
Proof. intros H. apply (RInt_scal g a b k H). Qed.
Lemma RInt_scal_r (g : R -> R) a b k : ex_RInt g a b -> RInt (fun x => g x * k) a b = RInt g a b * k.
Proof.
  intros H. transitivity (RInt (fun x => k * g x) a b).
  { apply (@RInt_ext R_CompleteNormedModule). intros x _. cbn. ring. }
  rewrite RInt_scal_l by assumption. rring.
Qed.
Lemma ex_RInt_scal_l (g : R -> R) a b k : ex_RInt g a b -> ex_RInt (fun x => k * g x) a b.
Proof. intros H. apply (ex_RInt_scal g a b k H). Qed.
Lemma ex_RInt_scal_r (g : R -> R) a b k : ex_RInt g a b -> ex_RInt (fun x => g x * k) a b.
Proof. intros H. apply (@ex_RInt_ext R_NormedModule (fun x => k * g x)); [intros x _; cbn; ring | apply ex_RInt_scal_l; assumption]. Qed.

Lemma separable_2d (g h : R -> R) x1 x2 y1 y2 :
  ex_RInt g x1 x2 -> ex_RInt h y1 y2 ->
  (forall x, ex_RInt (fun y => g x * h y) y1 y2) /\
  ex_RInt (fun x => RInt (fun y => g x * h y) y1 y2) x1 x2 /\
  RInt (fun x => RInt (fun y => g x * h y) y1 y2) x1 x2 = RInt g x1 x2 * RInt h y1 y2.
Proof.
  intros Hg Hh.
  assert (E : (fun x => RInt (fun y => g x * h y) y1 y2) = (fun x => g x * RInt h y1 y2)).
  { apply functional_extensionality; intros x. apply RInt_scal_l; assumption. }
  split; [intros x; apply ex_RInt_scal_l; assumption |].
  rewrite E. split; [apply ex_RInt_scal_r; assumption | apply RInt_scal_r; assumption].
Qed.

Lemma separable_3d (g h k : R -> R) x1 x2 y1 y2 z1 z2 :
  ex_RInt g x1 x2 -> ex_RInt h y1 y2 -> ex_RInt k z1 z2 ->
  (forall x y, ex_RInt (fun z => g x * h y * k z) z1 z2) /\
  (forall x, ex_RInt (fun y => RInt (fun z => g x * h y * k z) z1 z2) y1 y2) /\
  ex_RInt (fun x => RInt (fun y => RInt (fun z => g x * h y * k z) z1 z2) y1 y2) x1 x2 /\
  RInt (fun x => RInt (fun y => RInt (fun z => g x * h y * k z) z1 z2) y1 y2) x1 x2
    = RInt g x1 x2 * RInt h y1 y2 * RInt k z1 z2.
Proof.
  intros Hg Hh Hk.
  assert (Ez : forall x, (fun y => RInt (fun z => g x * h y * k z) z1 z2) = (fun y => g x * (h y * RInt k z1 z2))).
  { intros x. apply functional_extensionality; intros y. rewrite RInt_scal_l by assumption. rring. }
  assert (Ey : (fun x => RInt (fun y => RInt (fun z => g x * h y * k z) z1 z2) y1 y2) = (fun x => g x * (RInt h y1 y2 * RInt k z1 z2))).
  { apply functional_extensionality; intros x. rewrite Ez. rewrite RInt_scal_l by (apply ex_RInt_scal_r; assumption).
    rewrite RInt_scal_r by assumption. reflexivity. }
  split; [intros x y; apply ex_RInt_scal_l; assumption |].
  split; [intros x; rewrite Ez; apply ex_RInt_scal_l, ex_RInt_scal_r; assumption |].
  rewrite Ey. split; [apply ex_RInt_scal_r; assumption |].
  rewrite RInt_scal_r by assumption. rring.
Qed.

(** ** Spherical overload *)
(** the vector handed to the user's function *)
Lemma sph_norm r th phi :
  sqrt (r * sin th * cos phi * (r * sin th * cos phi) + r * sin th * sin phi * (r * sin th * sin phi) + r * cos th * (r * cos th)) = Rabs r.
Proof.
  replace (r * sin th * cos phi * (r * sin th * cos phi) + r * sin th * sin phi * (r * sin th * sin phi) + r * cos th * (r * cos th))
    with (r * r * ((sin th)² + (cos th)²) * ((sin phi)² + (cos phi)²) - r * r * (cos th)² * ((sin phi)² + (cos phi)² - 1)) by (unfold Rsqr; ring).
  rewrite !sin2_cos2. replace (r * r * 1 * 1 - r * r * (cos th)² * (1 - 1)) with (r²) by (unfold Rsqr; ring).
  apply sqrt_Rsqr_abs.
Qed.

Lemma spherical_vector r c phi :
  let '(vx, vy, vz) := spherical_coordinates ROps r (acos c) phi in
  vx = r * sin (acos c) * cos phi /\ vy = r * sin (acos c) * sin phi /\ vz = r * cos (acos c) /\
  sqrt (vx * vx + vy * vy + vz * vz) = Rabs r /\
  0 <= acos c <= PI /\
  (-1 <= c <= 1 -> vz = r * c /\ sin (acos c) = sqrt (1 - c * c)).
Proof.
  cbn. repeat split; try apply acos_bound.
  - apply sph_norm.
  - rewrite cos_acos; tauto.
  - rewrite sin_acos by tauto. unfold Rsqr. reflexivity.
Qed.

Lemma spherical_integrand_radial (f : R -> R) r c phi :
  spherical_integrand ROps (fun x y z => f (sqrt (x * x + y * y + z * z))) r c phi = r * r * f (Rabs r).
Proof. unfold spherical_integrand, spherical_coordinates. cbn. rewrite sph_norm. reflexivity. Qed.

Lemma spherical_integrand_jacobian F r c phi :
  spherical_integrand ROps F r c phi =
  r * r * F (r * sin (acos c) * cos phi) (r * sin (acos c) * sin phi) (r * cos (acos c)).
Proof. reflexivity. Qed.

Section Spherical.
Variable I : backend -> (R -> res R) -> R -> R -> res R.
Variable MC : method -> (list R -> R) -> list R -> Z -> res R.

Theorem spherical_radial m p (f : R -> R) r1 r2 c1 c2 phi1 phi2 :
  is_nested_method m = true ->
  (forall g lo hi, lo < hi -> ex_RInt g lo hi -> selected I m p (okf g) lo hi = Ok (RInt g lo hi)) ->
  0 <= r1 -> 0 <= r2 ->
  ex_RInt (fun r => r * r * f r) r1 r2 ->
  integrate_3d_spherical ROps I MC m (fun x y z => f (sqrt (x * x + y * y + z * z))) r1 r2 c1 c2 phi1 phi2 p
  = Ok ((c2 - c1) * (phi2 - phi1) * RInt (fun r => r * r * f r) r1 r2).
Proof.
  intros H Hsel Hr1 Hr2 Hex. unfold integrate_3d_spherical.
  set (F := fun x y z => f (sqrt (x * x + y * y + z * z))).
  assert (EF : spherical_integrand ROps F = fun r _ _ => r * r * f (Rabs r)).
  { apply functional_extensionality; intros r. apply functional_extensionality; intros c.
    apply functional_extensionality; intros phi. apply spherical_integrand_radial. }
  rewrite EF.
  assert (Ephi : forall r, RInt (fun _ : R => r * r * f (Rabs r)) phi1 phi2 = (phi2 - phi1) * (r * r * f (Rabs r))).
  { intros r. apply (RInt_const phi1 phi2 (r * r * f (Rabs r))). }
  assert (Ec : forall r, RInt (fun _ : R => RInt (fun _ : R => r * r * f (Rabs r)) phi1 phi2) c1 c2
                         = (c2 - c1) * ((phi2 - phi1) * (r * r * f (Rabs r)))).
  { intros r. rewrite Ephi. apply (RInt_const c1 c2 ((phi2 - phi1) * (r * r * f (Rabs r)))). }
  rewrite (integrate_3d_exact I MC m p (fun r _ _ => r * r * f (Rabs r)) r1 r2 c1 c2 phi1 phi2 H Hsel).
  - f_equal.
    rewrite (RInt_ext _ (fun r => ((c2 - c1) * (phi2 - phi1)) * (r * r * f r))).
    + apply RInt_scal_l; assumption.
    + intros x [Hx1 Hx2]. rewrite Ec. rewrite Rabs_pos_eq; [rring |].
      apply Rlt_le. eapply Rle_lt_trans; [| exact Hx1]. apply Rmin_glb; assumption.
  - intros x y. apply ex_RInt_const.
  - intros x. apply (ex_RInt_ext (fun _ => (phi2 - phi1) * (x * x * f (Rabs x)))); [intros; symmetry; apply Ephi | apply ex_RInt_const].
  - apply (ex_RInt_ext (fun r => ((c2 - c1) * (phi2 - phi1)) * (r * r * f r))).
    + intros x [Hx1 Hx2]. rewrite Ec. rewrite Rabs_pos_eq; [rring |].
      apply Rlt_le. eapply Rle_lt_trans; [| exact Hx1]. apply Rmin_glb; assumption.
    + apply ex_RInt_scal_l; assumption.
Qed.

Corollary spherical_full_sphere m p (f : R -> R) r1 r2 :
  is_nested_method m = true ->
  (forall g lo hi, lo < hi -> ex_RInt g lo hi -> selected I m p (okf g) lo hi = Ok (RInt g lo hi)) ->
  0 <= r1 -> 0 <= r2 ->
  ex_RInt (fun r => r * r * f r) r1 r2 ->
  integrate_3d_spherical ROps I MC m (fun x y z => f (sqrt (x * x + y * y + z * z))) r1 r2 (-1) 1 0 (2 * PI) p
  = Ok (4 * PI * RInt (fun r => r * r * f r) r1 r2).
Proof.
  intros. rewrite spherical_radial by assumption. f_equal. rring.
Qed.
End Spherical.

(** ** Non-vacuity: an ideal back end satisfies the premises; a concrete integrand satisfies the integrability premises *)
Definition unres (r : res R) : R := match r with Ok y => y | _ => 0 end.
Definition I_ideal (_ : backend) (g : R -> res R) (u v : R) : res R := Ok (RInt (fun x => unres (g x)) u v).

Example ideal_backend_exact m p : is_nested_method m = true ->
  m <> M_GaussLegendre2 -> m <> M_AdaptiveSimpson ->
  forall g lo hi, lo < hi -> ex_RInt g lo hi -> selected I_ideal m p (okf g) lo hi = Ok (RInt g lo hi).
Proof.
  intros H H1 H2 g lo hi _ _. destruct m; try discriminate H; try congruence; reflexivity.
Qed.

Example example_2d :
  integrate_2d ROps I_ideal (fun _ _ _ _ => Exit) M_GaussKronrod (fun x y => exp (- x) * cos (2 * y)) 0 1 3 2 0
  = Ok (RInt (fun x => exp (- x)) 0 1 * RInt (fun y => cos (2 * y)) 3 2).
Proof.
  assert (Hg : ex_RInt (fun x => exp (- x)) 0 1).
  { apply (@ex_RInt_continuous R_CompleteNormedModule). intros z _. apply (@ex_derive_continuous R_AbsRing R_NormedModule). auto_derive; auto. }
  assert (Hh : ex_RInt (fun y => cos (2 * y)) 3 2).
  { apply (@ex_RInt_continuous R_CompleteNormedModule). intros z _. apply (@ex_derive_continuous R_AbsRing R_NormedModule). auto_derive; auto. }
  destruct (separable_2d (fun x => exp (- x)) (fun y => cos (2 * y)) 0 1 3 2 Hg Hh) as (A & B & C).
  rewrite <- C. apply integrate_2d_exact; try assumption; try reflexivity.
Qed.

(** non-vacuity of [reentrant_exact]: exp(-x) written as 1 - int_0^x exp(-t) dt, outer Gauss-Kronrod on reversed limits,
    inner Tanh-Sinh with another parameter *)
Lemma RInt_exp_neg x : is_RInt (fun t => exp (- t)) 0 x (1 - exp (- x)).
Proof.
  evar_last.
  - apply (is_RInt_derive (fun t => - exp (- t)) (fun t => exp (- t))).
    + intros t _. auto_derive; auto. ring.
    + intros t _. apply (@ex_derive_continuous R_AbsRing R_NormedModule). auto_derive; auto.
  - cbn. rewrite Ropp_0, exp_0. unfold minus, plus, opp; cbn. ring.
Qed.

Example example_reentrant :
  integrate_reentrant ROps I_ideal M_GaussKronrod 0 M_TanhSinh 7 (fun x i => 1 - i) (fun x t => exp (- t)) (fun _ => 0) (fun x => x) 2 0
  = Ok (RInt (fun x => exp (- x)) 2 0).
Proof.
  etransitivity.
  - apply reentrant_exact; try reflexivity.
    + intros x. exists (1 - exp (- x)). apply RInt_exp_neg.
    + apply ex_RInt_ext with (f := fun x => exp (- x)).
      * intros x _. rewrite (is_RInt_unique _ _ _ _ (RInt_exp_neg x)). lra.
      * apply (@ex_RInt_continuous R_CompleteNormedModule). intros z _. apply (@ex_derive_continuous R_AbsRing R_NormedModule). auto_derive; auto.
  - f_equal. apply RInt_ext. intros x _. rewrite (is_RInt_unique _ _ _ _ (RInt_exp_neg x)). lra.
Qed.

(** ** The dispatch table, spelled out *)
Lemma dispatch_table (I : backend -> (R -> res R) -> R -> R -> res R) f a b p : a < b ->
  let IN := integrate_named ROps I in
  let id := fun r : R => r in
  IN M_Trapezoidal f a b p = rmap id (I B_trapezoidal f a b) /\
  IN M_GaussLegendre f a b p = rmap id (I B_gauss30 f a b) /\
  IN M_GaussKronrod f a b 0%Z = rmap id (I (B_kronrod31 5%Z) f a b) /\
  (p <> 0%Z -> IN M_GaussKronrod f a b p = rmap id (I (B_kronrod31 p) f a b)) /\
  IN M_TanhSinh f a b p = rmap id (I B_tanh_sinh f a b) /\
  IN M_GaussLegendre2 f a b 0%Z = rmap id (gl_integrate ROps f a b 30%Z) /\
  (p <> 0%Z -> IN M_GaussLegendre2 f a b p = rmap id (gl_integrate ROps f a b p)) /\
  IN M_AdaptiveSimpson f a b p =
    rmap id (rbind (find_epsilon ROps f a b (1 / 1000000000)) (fun eps => integrate_eps ROps f a b eps 20)).
Proof.
  intros Hab IN id. unfold IN.
  repeat split; try (intros Hp; apply Z.eqb_neq in Hp);
    rewrite dispatch_forward by (reflexivity || assumption); unfold selected; try rewrite Hp; reflexivity.
Qed.

(** ** Separable integrands through the front ends *)
Theorem integrate_2d_separable I MC m p (g h : R -> R) x1 x2 y1 y2 :
  is_nested_method m = true ->
  (forall g lo hi, lo < hi -> ex_RInt g lo hi -> selected I m p (okf g) lo hi = Ok (RInt g lo hi)) ->
  ex_RInt g x1 x2 -> ex_RInt h y1 y2 ->
  integrate_2d ROps I MC m (fun x y => g x * h y) x1 x2 y1 y2 p = Ok (RInt g x1 x2 * RInt h y1 y2).
Proof.
  intros H Hsel Hg Hh. destruct (separable_2d g h x1 x2 y1 y2 Hg Hh) as (A & B & C).
  rewrite <- C. apply integrate_2d_exact; assumption.
Qed.

Theorem integrate_3d_separable I MC m p (g h k : R -> R) x1 x2 y1 y2 z1 z2 :
  is_nested_method m = true ->
  (forall g lo hi, lo < hi -> ex_RInt g lo hi -> selected I m p (okf g) lo hi = Ok (RInt g lo hi)) ->
  ex_RInt g x1 x2 -> ex_RInt h y1 y2 -> ex_RInt k z1 z2 ->
  integrate_3d ROps I MC m (fun x y z => g x * h y * k z) x1 x2 y1 y2 z1 z2 p
  = Ok (RInt g x1 x2 * RInt h y1 y2 * RInt k z1 z2).
Proof.
  intros H Hsel Hg Hh Hk. destruct (separable_3d g h k x1 x2 y1 y2 z1 z2 Hg Hh Hk) as (A & B & C & D).
  rewrite <- D. apply integrate_3d_exact; assumption.
Qed.

Example example_spherical :
  integrate_3d_spherical ROps I_ideal (fun _ _ _ _ => Exit) M_TanhSinh (fun x y z => exp (- sqrt (x * x + y * y + z * z))) 2 0 (-1) 1 0 (2 * PI) 0%Z
  = Ok (4 * PI * RInt (fun r => r * r * exp (- r)) 2 0).
Proof.
  apply (spherical_full_sphere I_ideal (fun _ _ _ _ => Exit) M_TanhSinh 0%Z (fun r => exp (- r))); try reflexivity; try lra.
  apply (@ex_RInt_continuous R_CompleteNormedModule). intros z _. apply (@ex_derive_continuous R_AbsRing R_NormedModule). auto_derive; auto.
Qed.

Lemma unknown_name_exits I (s : string) f a b p :
  s <> "Trapezoidal"%string -> s <> "Gauss-Legendre"%string -> s <> "Gauss-Kronrod"%string -> s <> "Tanh-Sinh"%string ->
  s <> "Gauss-Legendre_2"%string -> s <> "Adaptive-Simpson"%string ->
  integrate_named ROps I (parse_method s) f a b p = Exit.
Proof. intros. apply dispatch_unknown. apply parse_unknown; assumption. Qed.

Lemma front_end_unknown I MC m f2 f3 x1 x2 y1 y2 z1 z2 p :
  is_nested_method m = false -> is_mc_method m = false ->
  integrate_2d ROps I MC m f2 x1 x2 y1 y2 p = Exit /\ integrate_3d ROps I MC m f3 x1 x2 y1 y2 z1 z2 p = Exit.
Proof. intros H1 H2. split; [exact (integrate_2d_unknown I MC m f2 x1 x2 y1 y2 p H1 H2) | exact (integrate_3d_unknown I MC m f3 x1 x2 y1 y2 z1 z2 p H1 H2)]. Qed.

(** ** Call histories: the answer of a call does not depend on the calls the process made before it *)
Section Histories.
Variable I : backend -> (R -> res R) -> R -> R -> res R.
Variable MC : method -> (list R -> R) -> list R -> Z -> res R.
Local Notation RC := (run_call ROps I MC).
Local Notation RS := (run_session ROps I MC).

Definition survives (c : call (T := R)) : Prop := RC c <> Exit.

Lemma run_session_history (h : list call) : forall c t, List.Forall survives h ->
  nth (List.length h) (RS (h ++ c :: t)%list) Exit = RC c.
Proof.
  induction h as [|c0 h IH]; intros c t Hh.
  - cbn. destruct (RC c) eqn:E; reflexivity.
  - inversion Hh as [|? ? H0 Hr]; subst. cbn [app List.length run_session].
    unfold survives in H0. destruct (RC c0) eqn:E; try congruence; cbn [nth]; apply IH; assumption.
Qed.

(** a call is answered alike before main, from main after any calls made before main, and in a process that makes no other call *)
Lemma run_process_phase (pre h t : list call) (c : call) : List.Forall survives pre -> List.Forall survives h ->
  nth (List.length pre + List.length h) (run_process ROps I MC pre (h ++ c :: t)%list) Exit = RC c /\
  nth (List.length h) (run_process ROps I MC (h ++ c :: t)%list pre) Exit = RC c /\
  run_process ROps I MC [c] [] = [RC c].
Proof.
  intros Hp Hh. unfold run_process. repeat split.
  - rewrite app_assoc, <- app_length. apply run_session_history. apply Forall_app; split; assumption.
  - rewrite <- app_assoc. cbn [app]. apply run_session_history; assumption.
  - cbn. destruct (RC c); reflexivity.
Qed.

(** every call of a history that does not terminate the process is answered *)
Lemma run_session_length (cs : list call) : List.Forall survives cs -> List.length (RS cs) = List.length cs.
Proof.
  induction 1 as [|c cs H0 _ IH]; [reflexivity|]. cbn [run_session]. unfold survives in H0.
  destruct (RC c) eqn:E; try congruence; cbn [List.length]; now rewrite IH.
Qed.

(** after any history, a one-dimensional call whose selected back end is exact returns the integral *)
Lemma history_named_exact (h t : list call) m p g a b : List.Forall survives h ->
  is_nested_method m = true ->
  (forall g lo hi, lo < hi -> ex_RInt g lo hi -> selected I m p (okf g) lo hi = Ok (RInt g lo hi)) ->
  ex_RInt g a b ->
  nth (List.length h) (RS (h ++ Call_1d m p (okf g) a b :: t)%list) Exit = Ok (RInt g a b).
Proof.
  intros Hh Hm Hex Hg. rewrite run_session_history by assumption. cbn [run_call].
  exact (named_exact I m p Hm Hex g a b Hg).
Qed.
End Histories.

Example example_history :
  nth 2 (run_session ROps I_ideal (fun _ _ _ _ => Exit)
           [Call_1d M_Trapezoidal 3%Z (okf (fun x => x)) 0 1;
            Call_2d M_TanhSinh 0%Z (fun x y => x * y) 0 1 2 2;
            Call_1d M_GaussKronrod 0%Z (okf (fun x => exp (- x))) 0 2;
            Call_1d M_Unknown 0%Z (okf (fun x => x)) 0 1]) Exit
  = Ok (RInt (fun x => exp (- x)) 0 2).
Proof.
  apply (history_named_exact I_ideal (fun _ _ _ _ => Exit)
           [Call_1d M_Trapezoidal 3%Z (okf (fun x => x)) 0 1; Call_2d M_TanhSinh 0%Z (fun x y => x * y) 0 1 2 2]
           [Call_1d M_Unknown 0%Z (okf (fun x => x)) 0 1] M_GaussKronrod 0%Z (fun x => exp (- x)) 0 2).
  - repeat constructor; unfold survives; cbn [run_call].
    + unfold integrate_named. cbn [is_nested_method negb]. destruct (neqb ROps 0 1); [discriminate|].
      destruct (check_limits ROps 0 1) as [[? ?] ?]. unfold I_ideal. cbn. discriminate.
    + unfold integrate_2d. cbn [is_nested_method]. unfold nest_2d, integrate_named. cbn [is_nested_method negb].
      destruct (neqb ROps 0 1); [discriminate|]. destruct (check_limits ROps 0 1) as [[? ?] ?]. unfold I_ideal. cbn. discriminate.
  - reflexivity.
  - apply ideal_backend_exact; [reflexivity | discriminate | discriminate].
  - apply (@ex_RInt_continuous R_CompleteNormedModule). intros z _. apply (@ex_derive_continuous R_AbsRing R_NormedModule). auto_derive; auto.
Qed.
