(** C07, seventh pass: property clauses stated directly about the terms generated from the C++ source
    (Gen_C07_Formulas.v), obtained from the theorems about the hand model through the T-tie (C07_GenTie.v). *)
From Coq Require Import Reals ZArith List Bool Lra Lia.
From LP Require Import Num NumR C07_Model C07_Proofs_Cont C07_Proofs_Disc C07_Proofs_Int Gen_C07_Formulas C07_GenTie.
Local Open Scope R_scope.

Section GenBinomial.
Variable pi_c : R.
Variables (gQ gP igQ : R -> R -> res R) (gL ie : R -> res R) (binom : Z -> Z -> res R).
Hypothesis Hb : forall n k : nat,
  binom (Z.of_nat n) (Z.of_nat k) = Ok (if (n <? k)%nat then 0 else Binomial.C n k).

Lemma gen_binomial_interval (n : nat) p (k d : nat) : 0 <= p <= 1 -> (Z.of_nat n < 4294967296)%Z ->
  let CDF := fun x => val (g_CDF_Binomial ROps pi_c gQ gP igQ gL ie binom (Z.of_nat n) p (Z.of_nat x)) in
  let PMF := fun x => val (g_PMF_Binomial ROps pi_c gQ gP igQ gL ie binom (Z.of_nat n) p (Z.of_nat x)) in
  CDF (k + S d)%nat - CDF k = sum_f_R0 (fun i => PMF (S k + i)%nat) d /\ CDF k <= CDF (k + d)%nat /\ 0 <= CDF k <= 1.
Proof.
  intros Hp Hn. cbv beta zeta. rewrite !(tie_CDF_Binomial ROps ROps_LitLaws).
  split; [|split].
  - rewrite (cdf_binomial_interval binom Hb n p k d Hp Hn). apply sum_eq. intros i _.
    rewrite (tie_PMF_Binomial ROps ROps_LitLaws). reflexivity.
  - exact (cdf_binomial_mono_steps binom Hb n p k d Hp Hn).
  - exact (cdf_binomial_range binom Hb n p k Hp Hn).
Qed.
End GenBinomial.

Example gen_binomial_ex : exists binom : Z -> Z -> res R,
  (forall n k : nat, binom (Z.of_nat n) (Z.of_nat k) = Ok (if (n <? k)%nat then 0 else Binomial.C n k)) /\ 0 <= 1/2 <= 1 /\ (Z.of_nat 3 < 4294967296)%Z.
Proof. exists binom_R. split; [exact binom_R_spec|]. split; [lra|]. cbn. lia. Qed.
