(** * C06 proofs, part 7: Inv_GammaP / Inv_GammaQ (guards, positivity of every Halley iterate for every number of steps,
    exact solutions are fixed points), GammaLn / Gamma domain, Binomial_Coefficient on its GammaLn branch (n > 170). *)
From Coq Require Import Reals ZArith List Lia Lra Bool.
From LP Require Import Num NumR C06_Model C06_Proofs_Fact C06_Proofs_Quad.
Local Open Scope R_scope.

(** ** GammaLn, Gamma *)
Lemma gammaln_domain x : (x <= 0 -> gammaln ROps x = Exit) /\ (0 < x -> exists g, gammaln ROps x = Ok g).
Proof.
  unfold gammaln. cbn [nleb n0 ROps]. split; intros H; destruct (Rleb_spec x 0); try lra; [reflexivity|eexists; reflexivity].
Qed.

Lemma gamma_domain x : (x <= 0 -> gamma ROps x = Exit) /\
  (0 < x -> exists g, gammaln ROps x = Ok g /\ gamma ROps x = Ok (exp g) /\ 0 < exp g).
Proof.
  unfold gamma, rmap. destruct (gammaln_domain x) as [A B]. split; intros H.
  - rewrite A by exact H. reflexivity.
  - destruct (B H) as [g Hg]. exists g. rewrite Hg. cbn [rbind nexp ROps]. repeat split. apply exp_pos.
Qed.

(** Gamma is exp(GammaLn) at EVERY x > 0, however large the result: there is no bound above which the answer is replaced by anything else.
    ln undoes it; Gamma exceeds M > 0 exactly when GammaLn exceeds ln M; the order of two answers of Gamma is the order of the two GammaLn. *)
Lemma gamma_no_threshold x : 0 < x ->
  exists g v, gammaln ROps x = Ok g /\ gamma ROps x = Ok v /\ ln v = g /\
    (forall M, 0 < M -> (M < v <-> ln M < g)) /\
    (forall y gy vy, gammaln ROps y = Ok gy -> gamma ROps y = Ok vy -> (v < vy <-> g < gy)).
Proof.
  intros Hx. destruct (proj2 (gamma_domain x) Hx) as [g [Hg [Hv Hp]]].
  exists g, (exp g). split; [exact Hg|]. split; [exact Hv|]. split; [apply ln_exp|]. split.
  - intros M HM. split; intros H.
    + rewrite <- (ln_exp g). apply ln_increasing; assumption.
    + rewrite <- (exp_ln M) by assumption. apply exp_increasing; assumption.
  - intros y gy vy Hgy Hvy. unfold gamma, rmap in Hvy. rewrite Hgy in Hvy. cbn [rbind nexp ROps] in Hvy. injection Hvy as <-.
    split; intros H; [apply exp_lt_inv|apply exp_increasing]; assumption.
Qed.

(** ** Inv_GammaP: the guards *)
Lemma inv_gammap_guards p a :
  (a <= 0 -> inv_gammap ROps p a = Exit) /\
  (0 < a -> 1 <= p -> inv_gammap ROps p a = Ok (Rmax 100 (a + 100 * sqrt a))) /\
  (0 < a -> p <= 0 -> inv_gammap ROps p a = Ok 0).
Proof.
  unfold inv_gammap, ngeb, nmax. cbn [nleb nltb nadd nmul nsqrt nofZ n0 n1 ROps].
  split; [|split].
  - intros H. destruct (Rleb_spec a 0); [reflexivity|lra].
  - intros Ha Hp. destruct (Rleb_spec a 0); [lra|]. destruct (Rleb_spec 1 p); [|lra].
    f_equal. unfold Rmax. destruct (Rltb_spec 100 (a + 100 * sqrt a)), (Rle_dec 100 (a + 100 * sqrt a)); try lra; reflexivity.
  - intros Ha Hp. destruct (Rleb_spec a 0); [lra|]. destruct (Rleb_spec 1 p); [lra|].
    destruct (Rleb_spec p 0); [reflexivity|lra].
Qed.

Lemma inv_gammaq_is_inv_gammap q a : inv_gammaq ROps q a = inv_gammap ROps (1 - q) a.
Proof. reflexivity. Qed.

(** ** The Halley loop: one step *)
Section HalleyStep.
Variables (p a gln a1 lna1 afac : R).

(* the density-like divisor and the Halley correction the loop body computes at x when GammaP(x,a) = gp *)
Definition halley_dens (x : R) : R :=
  if Rltb 1 a then afac * exp (- (x - a1) + a1 * (ln x - lna1)) else exp (- x + a1 * ln x - gln).
Definition halley_corr (x gp : R) : R :=
  let u := (gp - p) / halley_dens x in
  u / (1 - 1 / 2 * Rmin 1 (u * ((a - 1) / x - 1))).
(* x -= t; if(x <= 0) x = 0.5 * (x + t) *)
Definition halley_next (x t : R) : R := if Rleb (x - t) 0 then 1 / 2 * (x - t + t) else x - t.

Lemma nmin_Rmin' u v : nmin ROps u v = Rmin u v.
Proof. unfold nmin, Rmin. cbn [nltb ROps]. destruct (Rltb_spec v u), (Rle_dec u v); try lra. Qed.

Lemma halley_unfold k x gp : 0 < x -> gammap ROps x a = Ok gp ->
  halley ROps p a gln a1 lna1 afac (S k) x =
    let t := halley_corr x gp in
    let x' := halley_next x t in
    if Rltb (Rabs t) (1 / 100000000 * x') then Ok x' else halley ROps p a gln a1 lna1 afac k x'.
Proof.
  intros Hx Hg. cbn [halley]. cbn [nleb n0 ROps]. destruct (Rleb_spec x 0); [lra|]. rewrite Hg. cbn [rbind].
  unfold ngtb, ndec. rewrite nmin_Rmin'. cbn [nltb nleb nadd nsub nmul ndiv nneg nabs nexp nln nofZ n0 n1 ROps].
  reflexivity.
Qed.

(** the safeguard  if(x <= 0) x = 0.5*(x+t)  halves the previous iterate: the next iterate of a positive x is positive,
    whatever the correction t is (also for a wild t from a bad P or a vanishing density) *)
Lemma halley_next_pos x t : 0 < x -> 0 < halley_next x t.
Proof. intros H. unfold halley_next. destruct (Rleb_spec (x - t) 0); lra. Qed.

Lemma halley_next_cases x t : (x - t <= 0 /\ halley_next x t = x / 2) \/ (0 < x - t /\ halley_next x t = x - t).
Proof. unfold halley_next. destruct (Rleb_spec (x - t) 0); [left|right]; split; try lra. Qed.

(** every iterate stays positive, for every number n of remaining steps: a positive start never returns 0 or a negative x *)
Lemma halley_positive n : forall x r, 0 < x -> halley ROps p a gln a1 lna1 afac n x = Ok r -> 0 < r.
Proof.
  induction n as [|k IH]; intros x r Hx.
  - cbn [halley]. intros H; inversion H; subst; exact Hx.
  - destruct (gammap ROps x a) as [gp| | |] eqn:Eg.
    + rewrite (halley_unfold k x gp Hx Eg). cbv zeta.
      pose proof (halley_next_pos x (halley_corr x gp) Hx) as Hn.
      destruct (Rltb _ _).
      * intros H; inversion H; subst; exact Hn.
      * apply IH. exact Hn.
    + cbn [halley]. cbn [nleb n0 ROps]. destruct (Rleb_spec x 0); [lra|]. rewrite Eg. discriminate.
    + cbn [halley]. cbn [nleb n0 ROps]. destruct (Rleb_spec x 0); [lra|]. rewrite Eg. discriminate.
    + cbn [halley]. cbn [nleb n0 ROps]. destruct (Rleb_spec x 0); [lra|]. rewrite Eg. discriminate.
Qed.

(** an exact solution P(x,a) = p is a fixed point: the loop returns it at once, untouched *)
Lemma halley_fixed_point k x : 0 < x -> gammap ROps x a = Ok p ->
  halley ROps p a gln a1 lna1 afac (S k) x = Ok x.
Proof.
  intros Hx Hg. rewrite (halley_unfold k x p Hx Hg). cbv zeta.
  assert (Et : halley_corr x p = 0).
  { unfold halley_corr. cbv zeta. replace (p - p) with 0 by ring. unfold Rdiv. rewrite !Rmult_0_l. reflexivity. }
  rewrite Et. assert (En : halley_next x 0 = x).
  { unfold halley_next. destruct (Rleb_spec (x - 0) 0); lra. }
  rewrite En, Rabs_R0. destruct (Rltb_spec 0 (1 / 100000000 * x)); [reflexivity|lra].
Qed.

(** the loop either breaks on the relative-step test or uses all its steps: a returned r (from a positive start with n steps)
    is some iterate x_j, j <= n, of the recurrence x_{j+1} = halley_next x_j (halley_corr x_j P(x_j,a)), and if j < n the
    last correction was below 1e-8 r *)
Fixpoint halley_iter (j : nat) (x : R) : R :=
  match j with
  | O => x
  | S i => match gammap ROps x a with
           | Ok gp => halley_iter i (halley_next x (halley_corr x gp))
           | _ => x
           end
  end.

Lemma halley_trace n : forall x r, 0 < x -> halley ROps p a gln a1 lna1 afac n x = Ok r ->
  exists j, (j <= n)%nat /\ r = halley_iter j x /\
    ((j < n)%nat -> exists y gp, 0 < y /\ gammap ROps y a = Ok gp /\ r = halley_next y (halley_corr y gp) /\
                           Rabs (halley_corr y gp) < 1 / 100000000 * r).
Proof.
  induction n as [|k IH]; intros x r Hx.
  - cbn [halley]. intros H; inversion H; subst. exists 0%nat. repeat split; try lia.
  - destruct (gammap ROps x a) as [gp| | |] eqn:Eg;
      try (cbn [halley]; cbn [nleb n0 ROps]; destruct (Rleb_spec x 0); [lra|]; rewrite Eg; discriminate).
    rewrite (halley_unfold k x gp Hx Eg). cbv zeta.
    pose proof (halley_next_pos x (halley_corr x gp) Hx) as Hn.
    destruct (Rltb_spec (Rabs (halley_corr x gp)) (1 / 100000000 * halley_next x (halley_corr x gp))) as [Hb|Hb].
    + intros H; inversion H; subst. exists 1%nat. split; [lia|]. split.
      * cbn [halley_iter]. rewrite Eg. reflexivity.
      * intros _. exists x, gp. repeat split; assumption.
    + intros H. destruct (IH _ _ Hn H) as (j & Hj & Er & Hbr). exists (S j). split; [lia|]. split.
      * cbn [halley_iter]. rewrite Eg. exact Er.
      * intros Hlt. apply Hbr. lia.
Qed.

(** when GammaP answers at every positive x (e.g. on the quadrature branch, below), the loop answers for every start and every
    number of steps *)
Lemma halley_total : (forall x, 0 < x -> exists gp, gammap ROps x a = Ok gp) ->
  forall n x, exists r, halley ROps p a gln a1 lna1 afac n x = Ok r.
Proof.
  intros HP. induction n as [|k IH]; intros x.
  - cbn [halley]. eexists; reflexivity.
  - destruct (Rle_lt_dec x 0) as [Hx|Hx].
    + exists 0. cbn [halley]. cbn [nleb n0 ROps]. destruct (Rleb_spec x 0); [reflexivity|lra].
    + destruct (HP x Hx) as [gp Eg]. rewrite (halley_unfold k x gp Hx Eg). cbv zeta.
      destruct (Rltb _ _); [eexists; reflexivity|apply IH].
Qed.
End HalleyStep.

(** ** The two initial guesses are positive for 0 < p < 1, so Inv_GammaP(p,a) > 0 (over the reals; in doubles the guess
    (p/t)^(1/a) can underflow to 0, which the loop answers with 0: C06_inverse_underflow_returns_zero) *)
Lemma inv_gammap_positive p a r : 0 < a -> 0 < p < 1 -> inv_gammap ROps p a = Ok r -> 0 < r.
Proof.
  intros Ha [Hp0 Hp1]. unfold inv_gammap, ngeb, ngtb. cbn [nleb n0 n1 ROps].
  destruct (Rleb_spec a 0) as [?H|?H]; [lra|]. destruct (Rleb_spec 1 p) as [?H|?H]; [lra|]. destruct (Rleb_spec p 0) as [?H|?H]; [lra|].
  destruct (gammaln ROps a) as [gln| | |]; cbn [rbind]; try discriminate.
  apply halley_positive.
  cbn [nltb ROps]. destruct (Rltb_spec 1 a) as [Ha1|Ha1].
  - unfold nmax. cbn [nltb ROps]. unfold ndec. cbn [ndiv nofZ ROps].
    match goal with |- 0 < (if Rltb ?u ?v then _ else _) => destruct (Rltb_spec u v) end; lra.
  - unfold ndec. cbn [nltb nadd nsub nmul ndiv nln npow nofZ n1 ROps].
    set (t := 1 - a * (253 / 1000 + a * (12 / 100))).
    assert (Ht : t < 1) by (unfold t; nra).
    destruct (Rltb_spec p t) as [Hpt|Hpt].
    + unfold Rpower. apply exp_pos.
    + assert (Hq0 : 0 <= (p - t) / (1 - t)) by (apply Rmult_le_pos; [lra|left; apply Rinv_0_lt_compat; lra]).
      assert (Hq1 : (p - t) / (1 - t) < 1).
      { apply Rmult_lt_reg_r with (1 - t); [lra|]. unfold Rdiv. rewrite Rmult_assoc, Rinv_l by lra. lra. }
      assert (ln (1 - (p - t) / (1 - t)) <= 0).
      { rewrite <- ln_1. destruct (Req_dec ((p - t) / (1 - t)) 0) as [E|E].
        - rewrite E, Rminus_0_r. lra.
        - left. apply ln_increasing; lra. }
      lra.
Qed.

(** ** Binomial_Coefficient on the GammaLn branch (n > 170): defined for every 0 <= k <= n, symmetric in k <-> n-k over the
    reals, and the factorial table is not touched *)
Lemma binomial_large_defined tbl n k : (170 < n)%Z -> (0 <= k <= n)%Z ->
  exists g1 g2 g3, gammaln ROps (IZR n + 1) = Ok g1 /\ gammaln ROps (IZR k + 1) = Ok g2 /\ gammaln ROps (IZR (n - k) + 1) = Ok g3 /\
    binomial_step ROps tbl n k = (tbl, Ok (IZR (Int_part (1 / 2 + exp (g1 - g2 - g3))))).
Proof.
  intros Hn Hk.
  assert (P : forall z, (0 <= z)%Z -> 0 < IZR z + 1) by (intros z Hz; apply IZR_le in Hz; lra).
  destruct (proj2 (gammaln_domain (IZR n + 1)) (P n ltac:(lia))) as [g1 E1].
  destruct (proj2 (gammaln_domain (IZR k + 1)) (P k ltac:(lia))) as [g2 E2].
  destruct (proj2 (gammaln_domain (IZR (n - k) + 1)) (P (n - k)%Z ltac:(lia))) as [g3 E3].
  exists g1, g2, g3. repeat split; try assumption.
  unfold binomial_step.
  replace ((k <? 0)%Z || (n <? 0)%Z) with false by (symmetry; apply orb_false_iff; split; apply Z.ltb_ge; lia).
  replace (n <? k)%Z with false by (symmetry; apply Z.ltb_ge; lia).
  replace (n >? 170)%Z with true by (symmetry; rewrite Z.gtb_ltb; apply Z.ltb_lt; lia).
  cbn [nadd nofZ n1 ROps]. rewrite E1, E2, E3. cbn [rbind]. unfold ndec. cbn [nfloor nadd nsub ndiv nexp nofZ ROps]. reflexivity.
Qed.

Lemma binomial_symmetry_all n k : (0 <= k <= n)%Z -> binomial ROps n k = binomial ROps n (n - k).
Proof.
  intros Hk. destruct (Z_le_gt_dec n 170) as [Hn|Hn]; [apply binomial_symmetry; assumption|].
  unfold binomial.
  destruct (binomial_large_defined (fact_init ROps) n k ltac:(lia) Hk) as (g1 & g2 & g3 & E1 & E2 & E3 & E).
  destruct (binomial_large_defined (fact_init ROps) n (n - k) ltac:(lia) ltac:(lia)) as (h1 & h2 & h3 & F1 & F2 & F3 & F).
  rewrite E, F. cbn [snd]. replace (n - (n - k))%Z with k in F3 by lia.
  rewrite E1 in F1. rewrite E3 in F2. rewrite E2 in F3. inversion F1; inversion F2; inversion F3; subst.
  replace (h1 - h3 - h2) with (h1 - h2 - h3) by ring. reflexivity.
Qed.

(** ** a > 100: GammaQ, GammaP answer for every x >= 0 (the quadrature never exits and never runs out of panels), hence
    Inv_GammaP answers for every p *)
Lemma gammaq_large_a_total x a : 100 < a -> 0 <= x -> exists q, gammaq ROps x a = Ok q /\ 0 <= q <= 1.
Proof.
  intros Ha Hx. unfold gammaq, ngtb. cbn [nltb nleb neqb nadd nofZ n0 n1 ROps].
  destruct (Rltb_spec x 0) as [?H|?H]; [lra|]. destruct (Rleb_spec a 0) as [?H|?H]; [lra|]. cbn [orb].
  destruct (Reqb_spec x 0) as [?H|?H]; [exists 1; split; [reflexivity|lra]|].
  destruct (Rltb_spec 100 a) as [?H|?H]; [|lra].
  destruct (gammaq_int_regions x a ltac:(lra)) as (gln & _ & R1 & R2 & R3).
  assert (E : exists q, gammaq_int ROps x a = Ok q).
  { destruct (Rlt_le_dec (q_tmax a) x) as [A|A]; [eexists; apply R1; exact A|].
    destruct (Rlt_le_dec x (q_tmin a)) as [B|B]; [eexists; apply R2; assumption|].
    destruct (R3 (conj B A)) as (n & _ & E & _). eexists; exact E. }
  destruct E as [q E]. exists q. split; [exact E|].
  revert E. unfold gammaq_int. destruct (gammaln ROps a) as [g| | |]; try discriminate. cbn [rbind].
  match goal with |- rbind ?G _ = _ -> _ => destruct G as [P| | |] end; try discriminate. cbn [rbind].
  intros HH. injection HH as <-. unfold nmin, nmax. cbn [nltb nsub n0 n1 ROps].
  destruct (Rltb_spec 0 P); [destruct (Rltb_spec P 1)|destruct (Rltb_spec 0 1)]; lra.
Qed.

Lemma inv_gammap_large_a_total p a : 100 < a -> exists r, inv_gammap ROps p a = Ok r /\ 0 <= r /\ (0 < p < 1 -> 0 < r).
Proof.
  intros Ha.
  assert (T : exists r, inv_gammap ROps p a = Ok r).
  { destruct (inv_gammap_guards p a) as (_ & G1 & G0).
    destruct (Rle_lt_dec 1 p) as [H1|H1]; [eexists; apply G1; lra|].
    destruct (Rle_lt_dec p 0) as [H0|H0]; [eexists; apply G0; lra|].
    unfold inv_gammap, ngeb. cbn [nleb n0 n1 ROps].
    destruct (Rleb_spec a 0) as [?H|?H]; [lra|]. destruct (Rleb_spec 1 p) as [?H|?H]; [lra|]. destruct (Rleb_spec p 0) as [?H|?H]; [lra|].
    destruct (proj2 (gammaln_domain a) ltac:(lra)) as [g Eg]. rewrite Eg. cbn [rbind].
    apply halley_total. intros x Hx. destruct (gammaq_large_a_total x a Ha ltac:(lra)) as (q & Eq & _).
    unfold gammap, rmap. rewrite Eq. cbn [rbind]. eexists; reflexivity. }
  destruct T as [r Er]. exists r. split; [exact Er|].
  destruct (Rle_lt_dec 1 p) as [H1|H1].
  { destruct (inv_gammap_guards p a) as (_ & G1 & _). rewrite G1 in Er by lra. injection Er as <-.
    split; [|lra]. apply Rle_trans with 100; [lra|apply Rmax_l]. }
  destruct (Rle_lt_dec p 0) as [H0|H0].
  { destruct (inv_gammap_guards p a) as (_ & _ & G0). rewrite G0 in Er by lra. injection Er as <-. split; lra. }
  assert (0 < r) by (apply (inv_gammap_positive p a r); [lra|lra|exact Er]). split; [lra|intros _; assumption].
Qed.
