(** C14 — the 2-D / 3-D front ends end to end with plain Monte Carlo: Integrate_2D / Integrate_3D (C13_Model.integrate_2d / integrate_3d) on top of THIS
    model's Integrate_MC, for whatever statics the process holds (so also when the call is made from the integrand of another integration under way):
    the integrand is looked at only inside the rectangle spanned by the limits (whatever their order), and a constant is integrated to (x2-x1)(y2-y1)(z2-z1) c. *)
From Coq Require Import Reals ZArith List Lra Lia.
From LP Require Import Num NumR C13_Model C14_Model C14_Proofs C14_Proofs_Orient.
Import ListNotations.
Local Open Scope R_scope.

(** the Monte-Carlo back end the front ends are given: Integrate_MC from the statics [s], value only *)
Definition mc_of (us : Z -> R) (s : @vstate R) : method -> (list R -> R) -> list R -> Z -> res R :=
  fun m g region n => match integrate_mc ROps us s m g region n with Ok (v, _) => Ok v | Exit => Exit | OOB => OOB | Fuel => Fuel end.

Section Front.
Variable us : Z -> R.
Hypothesis Hus : forall k, 0 <= us k < 1.
Variable I : backend -> (R -> res R) -> R -> R -> res R.

Lemma front_2d_plain_mc_points_inside s f f' x1 x2 y1 y2 p :
  (forall x y, Rmin x1 x2 <= x <= Rmax x1 x2 -> Rmin y1 y2 <= y <= Rmax y1 y2 -> f x y = f' x y) ->
  integrate_2d ROps I (mc_of us s) M_MonteCarlo f x1 x2 y1 y2 p = integrate_2d ROps I (mc_of us s) M_MonteCarlo f' x1 x2 y1 y2 p.
Proof.
  intros H. unfold integrate_2d, mc_of. cbn [is_nested_method is_mc_method integrate_mc].
  rewrite (brute_force_points_between us Hus (fun args => f (nth0 ROps args 0) (nth0 ROps args 1)) (fun args => f' (nth0 ROps args 0) (nth0 ROps args 1))); [reflexivity |].
  intros pt Hpt. change (lows (mc_region_2d x1 x2 y1 y2)) with [x1; y1] in Hpt. change (highs (mc_region_2d x1 x2 y1 y2)) with [x2; y2] in Hpt.
  cbn [mins maxs cbox] in Hpt.
  destruct pt as [| a [| b [| c r]]]; cbn in Hpt; try tauto; try (destruct Hpt as (_ & _ & E); discriminate).
  destruct Hpt as (Ha & Hb & _). cbn. apply H; assumption.
Qed.

Lemma front_3d_plain_mc_points_inside s f f' x1 x2 y1 y2 z1 z2 p :
  (forall x y z, Rmin x1 x2 <= x <= Rmax x1 x2 -> Rmin y1 y2 <= y <= Rmax y1 y2 -> Rmin z1 z2 <= z <= Rmax z1 z2 -> f x y z = f' x y z) ->
  integrate_3d ROps I (mc_of us s) M_MonteCarlo f x1 x2 y1 y2 z1 z2 p = integrate_3d ROps I (mc_of us s) M_MonteCarlo f' x1 x2 y1 y2 z1 z2 p.
Proof.
  intros H. unfold integrate_3d, mc_of. cbn [is_nested_method is_mc_method integrate_mc].
  rewrite (brute_force_points_between us Hus (fun args => f (nth0 ROps args 0) (nth0 ROps args 1) (nth0 ROps args 2)) (fun args => f' (nth0 ROps args 0) (nth0 ROps args 1) (nth0 ROps args 2))); [reflexivity |].
  intros pt Hpt. change (lows (mc_region_3d x1 x2 y1 y2 z1 z2)) with [x1; y1; z1] in Hpt. change (highs (mc_region_3d x1 x2 y1 y2 z1 z2)) with [x2; y2; z2] in Hpt.
  cbn [mins maxs cbox] in Hpt.
  destruct pt as [| a [| b [| c [| d r]]]]; cbn in Hpt; try tauto; try (destruct Hpt as (_ & _ & _ & E); discriminate).
  destruct Hpt as (Ha & Hb & Hc & _). cbn. apply H; assumption.
Qed.

Lemma front_plain_mc_constant_exact s c x1 x2 y1 y2 z1 z2 p : (0 <= p)%Z ->
  integrate_2d ROps I (mc_of us s) M_MonteCarlo (fun _ _ => c) x1 x2 y1 y2 p = Ok ((x2 - x1) * (y2 - y1) * c) /\
  integrate_3d ROps I (mc_of us s) M_MonteCarlo (fun _ _ _ => c) x1 x2 y1 y2 z1 z2 p = Ok ((x2 - x1) * (y2 - y1) * (z2 - z1) * c).
Proof.
  intros Hp.
  assert (Hn : (0 < mc_ncalls p)%Z) by (unfold mc_ncalls; destruct (Z.eqb_spec p 0); lia).
  unfold integrate_2d, integrate_3d, mc_of. cbn [is_nested_method is_mc_method integrate_mc].
  split; f_equal.
  - rewrite (brute_force_constant_exact us c _ _ Hn).
    change (lows (mc_region_2d x1 x2 y1 y2)) with [x1; y1]. change (highs (mc_region_2d x1 x2 y1 y2)) with [x2; y2]. cbn. ring.
  - rewrite (brute_force_constant_exact us c _ _ Hn).
    change (lows (mc_region_3d x1 x2 y1 y2 z1 z2)) with [x1; y1; z1]. change (highs (mc_region_3d x1 x2 y1 y2 z1 z2)) with [x2; y2; z2]. cbn. ring.
Qed.
End Front.

(** non-vacuity: two integrands that agree on [0,1] x [2,3] and differ outside *)
Definition ex_f (x y : R) : R := x * y.
Definition ex_f' (x y : R) : R := Rmax 0 x * y.
Lemma front_2d_points_inside_example :
  (forall x y : R, Rmin 0 1 <= x <= Rmax 0 1 -> Rmin 2 3 <= y <= Rmax 2 3 -> ex_f x y = ex_f' x y) /\ ex_f (-1) 2 <> ex_f' (-1) 2.
Proof.
  unfold ex_f, ex_f'. split.
  - intros x y Hx _. rewrite Rmin_left in Hx by lra. rewrite Rmax_right by lra. reflexivity.
  - rewrite Rmax_left by lra. lra.
Qed.
