(** * C06 proofs, part 14 (reals): Integrate's convergence warning on integrands Simpson's rule is exact on.
    For a cubic integrand the first comparison of the two Simpson estimates already agrees (S2 = S), so for EVERY recursion floor,
    tolerance and order of the limits Integrate raises neither diagnostic: the warning measures |S2 - S| and nothing else. *)
From Coq Require Import Reals ZArith List Bool Lra.
From LP Require Import Num NumR C06_Model C06_Model2 C06_Proofs_Quad C06_Proofs_Warn.
Local Open Scope R_scope.

Lemma asr_w_cubic_no_warning c0 c1 c2 c3 depth a b eps : 0 <= eps ->
  snd (asr_w ROps depth (cub c0 c1 c2 c3) a b eps (cubI c0 c1 c2 c3 b - cubI c0 c1 c2 c3 a)
         (cub c0 c1 c2 c3 a) (cub c0 c1 c2 c3 b) (cub c0 c1 c2 c3 ((a + b) / 2))) = false.
Proof.
  intros He.
  assert (Z0 : cubI c0 c1 c2 c3 ((a + b) / 2) - cubI c0 c1 c2 c3 a + (cubI c0 c1 c2 c3 b - cubI c0 c1 c2 c3 ((a + b) / 2))
               - (cubI c0 c1 c2 c3 b - cubI c0 c1 c2 c3 a) = 0) by ring.
  destruct depth as [|k]; unfold ngtb; cbn [asr_w nadd nsub nmul ndiv nofZ nabs nleb nltb ROps];
    rewrite half_simpson_cubic, half_simpson_cubic', Z0, Rabs_R0.
  - cbn [snd]. apply Rltb_false. lra.
  - destruct (Rleb_spec 0 (15 * eps)); [reflexivity|lra].
Qed.

Lemma integrate_w_cubic_silent c0 c1 c2 c3 a b eps depth :
  fst (snd (integrate_w ROps (cub c0 c1 c2 c3) a b eps depth)) = false.
Proof.
  unfold integrate_w, ngtb. cbn [neqb nltb nadd nsub nmul ndiv nneg nofZ nabs n0 n1 ROps].
  destruct (Reqb_spec a b) as [->|Hne]; [reflexivity|].
  destruct (Rltb_spec b a); cbn [fst snd]; rewrite simpson_cubic.
  - replace ((b + a) / 2) with ((b + a) / 2) by reflexivity. apply asr_w_cubic_no_warning, Rabs_pos.
  - apply asr_w_cubic_no_warning, Rabs_pos.
Qed.

(** ** Non-vacuity of the hypotheses used in parts 12-14 *)
From LP Require Import OrdLaws C06_Proofs_Fact C06_Proofs_AnyArith.
Import ListNotations.

(* fuel: a loop that answers with fuel 1 (exact integer arithmetic: 4 * (1/2) = 0 ends the series) answers the same with fuel 7 *)
Example fuel_example :
  gser_loop ZOps 1 1%Z 1%Z 4%Z 1%Z = Ok (2, 0, 1)%Z /\ gser_loop ZOps 7 1%Z 1%Z 4%Z 1%Z = Ok (2, 0, 1)%Z /\
  gser_loop ZOps 0 1%Z 1%Z 4%Z 1%Z = Fuel.
Proof. vm_compute. repeat split. Qed.

(* the order laws and 0 < 1 hold in the reals *)
Example order_hypotheses_example : OrdLaws ROps /\ nltb ROps (n0 ROps) (n1 ROps) = true.
Proof. split; [exact ROps_OrdLaws|]. apply Rltb_true. cbn. lra. Qed.

(* n! = n (n-1)! exactly, in an arithmetic that is not the reals: integers, tables reached by different histories *)
Example factorial_recurrence_example :
  snd (factorial_step ZOps (fst (factorial_run ZOps (fact_init ZOps) [9; 2]%Z)) 5%Z) = Ok 120%Z /\
  snd (factorial_step ZOps (fact_init ZOps) 6%Z) = Ok (120 * 6)%Z.
Proof. vm_compute. split; reflexivity. Qed.

(* a panel whose integrand is not a cubic does raise the warning at recursion floor 0: the flag is not constantly false *)
Example warning_raised_example :
  snd (asr_w ZOps 0 (fun t => (t * t * t * t)%Z) 0%Z 24%Z 0%Z 1658880%Z 0%Z 331776%Z 20736%Z) = true /\
  snd (asr_w ZOps 0 (fun t => (t * t * t)%Z) 0%Z 24%Z 0%Z 82944%Z 0%Z 13824%Z 1728%Z) = false.
Proof. vm_compute. split; reflexivity. Qed.
