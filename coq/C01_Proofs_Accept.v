(** * C01 proofs, part 4: what an ACCEPTED input of the Interpolation_2D constructors guarantees.
    Inversion of the grid constructor, and soundness of the data-table constructor for every table it accepts
    (not only for the tables of valid grids): the object is a valid grid and reproduces every row. *)
From Coq Require Import Reals ZArith List Bool Lia Lra Sorted PeanoNat.
From LP Require Import Num NumR C01_Model C01_Proofs C01_Proofs_Table C01_Proofs_Global.
Import ListNotations.
Local Open Scope R_scope.

(** the unit factor as the constructors apply it: only when > 0 *)
Definition sc (d v : R) : R := if Rltb 0 d then v * d else v.

Lemma scale_nth_sc d l i : nth i (scale ROps d l) 0 = sc d (nth i l 0).
Proof. apply scale_nth. Qed.

Lemma scale2_nth_sc d (f : list (list R)) i j : nth j (nth i (scale2 ROps d f) []) 0 = sc d (nth j (nth i f []) 0).
Proof.
  unfold scale2, sc, ngtb. cbn [nltb n0 nmul ROps]. destruct (Rltb 0 d); [|reflexivity].
  change (@nil R) with (map (fun v => v * d) []) at 1. rewrite map_nth.
  replace 0 with (0 * d) at 1 by ring. apply (map_nth (fun v => v * d)).
Qed.

Lemma scale_m1 (l : list R) : scale ROps (nneg ROps (n1 ROps)) l = l.
Proof. unfold scale, ngtb. cbn [nltb nneg n0 n1 ROps]. destruct (Rltb_spec 0 (Ropp 1)); [lra|reflexivity]. Qed.

Lemma forallb_rows_inv (f : list (list R)) n :
  forallb (fun r => Nat.eqb (length r) n) f = true -> forall i, (i < length f)%nat -> length (nth i f []) = n.
Proof.
  intros H i Hi. rewrite forallb_forall in H. apply Nat.eqb_eq. apply H. now apply nth_In.
Qed.

Theorem construct2_inv xs ys f xd yd fd o : construct2 ROps xs ys f xd yd fd = Ok o ->
  valid_grid (scale ROps xd xs) (scale ROps yd ys) (scale2 ROps fd f) /\
  o = grid (scale ROps xd xs) (scale ROps yd ys) (scale2 ROps fd f).
Proof.
  unfold construct2. intros H.
  destruct (Nat.eqb (length f) (length xs) && forallb (fun r => Nat.eqb (length r) (length ys)) f) eqn:Hdim;
    cbn [negb] in H; [|discriminate].
  apply andb_prop in Hdim. destruct Hdim as [Hfl Hrows]. apply Nat.eqb_eq in Hfl.
  pose proof (forallb_rows_inv f (length ys) Hrows) as Hrow.
  destruct (construct ROps (scale ROps xd xs) (repeat (n0 ROps) (length xs)) (nneg ROps (n1 ROps)) (nneg ROps (n1 ROps)))
    as [xi| | |] eqn:Cx; cbn [rbind] in H; try discriminate.
  destruct (construct ROps (scale ROps yd ys) (repeat (n0 ROps) (length ys)) (nneg ROps (n1 ROps)) (nneg ROps (n1 ROps)))
    as [yi| | |] eqn:Cy; cbn [rbind] in H; try discriminate.
  apply construct_inv in Cx. destruct Cx as ((_ & HNx & Hix) & ->).
  apply construct_inv in Cy. destruct Cy as ((_ & HNy & Hiy) & ->).
  rewrite !scale_m1 in H. injection H as <-.
  destruct (scale2_rows fd f (length ys) Hrow) as [L1 L2].
  split.
  - repeat split; auto.
    + rewrite L1, scale_length. exact Hfl.
    + intros i Hi. rewrite scale_length. now apply L2.
  - unfold grid. rewrite !scale_length. reflexivity.
Qed.

Lemma split_rows3_inv (data : list (list R)) : forall xc yc fc, split_rows3 data = Ok (xc, yc, fc) ->
  length xc = length data /\ length yc = length data /\ length fc = length data /\
  forall k, (k < length data)%nat -> nth k data [] = [nth k xc 0; nth k yc 0; nth k fc 0].
Proof.
  induction data as [|r rest IH]; intros xc yc fc H.
  - injection H as <- <- <-. repeat split; auto. intros k Hk. cbn in Hk. lia.
  - cbn [split_rows3] in H. destruct r as [|x [|y [|f [|z r']]]]; try discriminate.
    destruct (split_rows3 rest) as [[[xr yr] fr]| | |] eqn:Hr; cbn [rbind fst snd] in H; try discriminate.
    injection H as <- <- <-. destruct (IH xr yr fr eq_refl) as (L1 & L2 & L3 & Hk).
    cbn [length]. repeat split; try (f_equal; assumption).
    intros [|k] Hlt; [reflexivity|]. cbn [nth]. apply Hk. cbn in Hlt. lia.
Qed.

(** with unit factors: the row (x, y, f) is found at the scaled node *)
Theorem table_constructor_sound (data : list (list R)) xd yd fd o :
  construct2_table ROps data xd yd fd = Ok o ->
  exists gx gy gf, valid_grid gx gy gf /\ o = grid gx gy gf /\ (length gx * length gy = length data)%nat /\
    forall k, (k < length data)%nat -> exists x y f, nth k data [] = [x; y; f] /\
      sc xd x = nth (k / length gy) gx 0 /\ sc yd y = nth (k mod length gy) gy 0 /\
      interpolate2 ROps o (sc xd x) (sc yd y) = Ok (sc fd f).
Proof.
  unfold construct2_table. intros H.
  destruct (split_rows3 data) as [[[xc yc] fc]| | |] eqn:Hs; cbn [rbind fst snd] in H; try discriminate.
  destruct (split_rows3_inv data xc yc fc Hs) as (Lx & Ly & Lf & Hrowk).
  set (x := unique_list ROps (sort_list ROps xc)) in *. set (y := unique_list ROps (sort_list ROps yc)) in *.
  set (Nx := length x) in *. set (Ny := length y) in *.
  destruct (Nat.eqb_spec (Nx * Ny) (length data)) as [Hsize|]; cbn [negb] in H; [|discriminate].
  match type of H with (if negb ?c then _ else _) = _ => destruct c eqn:Hchk end; cbn [negb] in H; [|discriminate].
  set (F := map (fun ix => map (fun iy => xat ROps fc (ix * Ny + iy)) (seq 0 Ny)) (seq 0 Nx)) in *.
  apply construct2_inv in H. destruct H as [HG ->].
  exists (scale ROps xd x), (scale ROps yd y), (scale2 ROps fd F).
  split; [exact HG|]. split; [reflexivity|]. rewrite !scale_length. fold Nx Ny. split; [exact Hsize|].
  destruct HG as (HNx & HNy & HGrest). pose proof (conj HNx (conj HNy HGrest)) as HG. rewrite scale_length in HNx, HNy. fold Nx in HNx. fold Ny in HNy.
  intros k Hk. exists (nth k xc 0), (nth k yc 0), (nth k fc 0). split; [now apply Hrowk|].
  set (ix := (k / Ny)%nat). set (iy := (k mod Ny)%nat).
  assert (Hkk : k = (ix * Ny + iy)%nat) by (unfold ix, iy; rewrite Nat.mul_comm; apply Nat.div_mod; lia).
  assert (Hiy : (iy < Ny)%nat) by (apply Nat.mod_upper_bound; lia).
  assert (Hix : (ix < Nx)%nat) by (apply Nat.div_lt_upper_bound; lia).
  rewrite forallb_forall in Hchk. specialize (Hchk ix ltac:(apply in_seq; lia)).
  rewrite forallb_forall in Hchk. specialize (Hchk iy ltac:(apply in_seq; lia)).
  apply andb_prop in Hchk. destruct Hchk as [Ex Ey]. unfold xat, nth0 in Ex, Ey. cbn [n0 neqb ROps] in Ex, Ey.
  rewrite <- Hkk in Ex, Ey.
  destruct (Reqb_spec (nth ix x 0) (nth k xc 0)) as [Ex'|]; [|discriminate].
  destruct (Reqb_spec (nth iy y 0) (nth k yc 0)) as [Ey'|]; [|discriminate].
  rewrite <- Ex', <- Ey', <- (scale_nth_sc xd x ix), <- (scale_nth_sc yd y iy). split; [reflexivity|]. split; [reflexivity|].
  rewrite (bilinear_nodes _ _ _ HG ix iy) by (rewrite scale_length; assumption).
  f_equal. rewrite scale2_nth_sc. f_equal. unfold F.
  rewrite (nth_map_seq _ Nx ix) by exact Hix. rewrite (nth_map_seq _ Ny iy) by exact Hiy.
  unfold xat, nth0. cbn [n0 ROps]. now rewrite <- Hkk.
Qed.

(** ** whole-grid statement: Interpolate(x, y) answers on the whole domain rectangle, with the bilinear form of a
    cell containing (x, y), and never leaves the range of the tabulated values *)
Theorem bilinear_global_range xs ys f : valid_grid xs ys f -> forall x y,
  nth 0 xs 0 <= x <= nth (length xs - 1) xs 0 -> nth 0 ys 0 <= y <= nth (length ys - 1) ys 0 ->
  exists i j, (S i < length xs)%nat /\ (S j < length ys)%nat /\
    nth i xs 0 <= x <= nth (S i) xs 0 /\ nth j ys 0 <= y <= nth (S j) ys 0 /\
    interpolate2 ROps (grid xs ys f) x y = Ok (BIL xs ys f i j x y) /\
    forall lo hi, (forall a b, (a < length xs)%nat -> (b < length ys)%nat -> lo <= nth b (nth a f []) 0 <= hi) ->
      lo <= BIL xs ys f i j x y <= hi.
Proof.
  intros HG x y Hx Hy. pose proof HG as (HNx & HNy & _).
  destruct (segment_of_gen xs 0 (length xs - 1) x ltac:(lia) Hx) as (i & Hi & Hxi).
  destruct (segment_of_gen ys 0 (length ys - 1) y ltac:(lia) Hy) as (j & Hj & Hyj).
  exists i, j. assert (Hi' : (S i < length xs)%nat) by lia. assert (Hj' : (S j < length ys)%nat) by lia.
  repeat (split; [assumption|]).
  pose proof (interpolate2_on_cell xs ys f HG i j x y Hi' Hj' Hxi Hyj) as E.
  split; [exact E|]. intros lo hi Hb.
  destruct (bilinear_within_corners xs ys f HG i j x y Hi' Hj' Hxi Hyj) as (v & Ev & B).
  rewrite E in Ev. injection Ev as <-.
  pose proof (Hb i j ltac:(lia) ltac:(lia)). pose proof (Hb (S i) j ltac:(lia) ltac:(lia)).
  pose proof (Hb (S i) (S j) ltac:(lia) ltac:(lia)). pose proof (Hb i (S j) ltac:(lia) ltac:(lia)).
  unfold Rmin, Rmax in B.
  repeat match type of B with context [Rle_dec ?a ?b] => destruct (Rle_dec a b) end; lra.
Qed.

(** non-vacuity: the data-table constructor accepts the table of the example grid *)
Example table_accept_example : exists o,
  construct2_table ROps [[0; 0; 1]; [0; 2; 2]; [0; 3; 3]; [1; 0; 4]; [1; 2; 5]; [1; 3; 6]] (-1) (-1) (-1) = Ok o.
Proof.
  rewrite <- table_of_grid_example. rewrite (table_constructor_grid _ _ _ _ _ _ valid_grid_example).
  destruct (construct2_ok _ _ _ (-1) (-1) (-1) valid_grid_example) as [E _]. rewrite E. eexists. reflexivity.
Qed.
