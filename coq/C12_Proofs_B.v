(** * C12 proofs, part B: validity of the rule on every interval reduced to the Newton stage; the Newton stage is
    Newton's method on the Legendre polynomial defined by Bonnet's recurrence *)
From Coq Require Import Reals ZArith List Bool Lia Lra Arith.
From Coquelicot Require Import Coquelicot.
From LP Require Import Num NumR C12_Model C12_Proofs.
Import ListNotations.
Local Open Scope R_scope.

(** ** 1. ordering, interior, sign of the weights: from the Newton results to every interval *)

(** what the Newton stage has to deliver (a statement about [zs] alone, no interval involved): z_0 > z_1 > ... > z_(m-1),
    z_0 < 1; for even n the last one is positive; for odd n the last one (the middle node, ideally 0) is larger than
    -z_i for every other i and than -1; the derivatives pp_i do not vanish *)
Definition roots_ok (n : nat) (zs : list (R * R)) : Prop :=
  zval zs 0 < 1 /\
  (forall i j, (i < j)%nat -> (j < gl_m n)%nat -> zval zs j < zval zs i) /\
  (Nat.even n = true -> 0 < zval zs (gl_m n - 1)) /\
  (Nat.odd n = true -> forall i, (i < gl_m n - 1)%nat -> - zval zs i < zval zs (gl_m n - 1)) /\
  -1 < zval zs (gl_m n - 1).
Definition pp_ok (n : nat) (zs : list (R * R)) : Prop := forall i, (i < gl_m n)%nat -> snd (nth i zs (0, 0)) <> 0.

Lemma even_odd_m n : (1 <= n)%nat ->
  (Nat.even n = true /\ n = (2 * gl_m n)%nat) \/ (Nat.odd n = true /\ n = (2 * gl_m n - 1)%nat).
Proof.
  intros Hn. unfold gl_m. destruct (Nat.even n) eqn:E.
  - left. split; auto. apply Nat.even_spec in E. destruct E as [k ->].
    replace (2 * k + 1)%nat with (1 + k * 2)%nat by lia. rewrite Nat.div_add by lia. simpl. lia.
  - right. assert (O : Nat.odd n = true) by (unfold Nat.odd; now rewrite E). split; auto.
    apply Nat.odd_spec in O. destruct O as [k ->].
    replace (2 * k + 1 + 1)%nat with (0 + (k + 1) * 2)%nat by lia. rewrite Nat.div_add by lia. simpl. lia.
Qed.

Lemma roots_ge_last n zs i : roots_ok n zs -> (i < gl_m n)%nat -> zval zs (gl_m n - 1) <= zval zs i.
Proof.
  intros (_ & Hd & _) Hi. destruct (Nat.eq_dec i (gl_m n - 1)) as [->|Hne]; [lra|].
  left. apply Hd; lia.
Qed.
Lemma roots_le_first n zs i : roots_ok n zs -> (i < gl_m n)%nat -> zval zs i <= zval zs 0.
Proof.
  intros (_ & Hd & _) Hi. destruct i; [lra|]. left. apply Hd; lia.
Qed.
Lemma roots_in_unit n zs i : roots_ok n zs -> (i < gl_m n)%nat -> -1 < zval zs i < 1.
Proof.
  intros H Hi. pose proof (roots_ge_last n zs i H Hi) as G1. pose proof (roots_le_first n zs i H Hi) as G2.
  destruct H as (Hf & _ & _ & _ & Hl). lra.
Qed.

(** the nodes of the reference rule *)
Lemma ref_node n zs i : (1 <= n)%nat -> length zs = gl_m n -> (i < n)%nat ->
  node n (-1) 1 zs i = if Nat.ltb (n - 1 - i) (gl_m n) then zval zs (n - 1 - i) else - zval zs i.
Proof.
  intros Hn Hl Hi. rewrite row_R_node by assumption. destruct (Nat.ltb _ _); field.
Qed.

Theorem ref_nodes_increasing n zs : (1 <= n)%nat -> length zs = gl_m n -> roots_ok n zs ->
  forall i j, (i < j)%nat -> (j < n)%nat -> node n (-1) 1 zs i < node n (-1) 1 zs j.
Proof.
  intros Hn Hl Hr i j Hij Hj. destruct (gl_m_bounds n Hn) as (M1 & M2 & M3).
  rewrite !ref_node by (assumption || lia).
  pose proof Hr as (H0 & Hd & He & Ho & Hlast).
  destruct (Nat.ltb_spec (n - 1 - i) (gl_m n)) as [Li|Li]; destruct (Nat.ltb_spec (n - 1 - j) (gl_m n)) as [Lj|Lj].
  - apply Hd; lia.
  - lia.
  - (* i on the lower half, j mirrored *)
    assert (Im : (i < gl_m n)%nat) by lia.
    pose proof (roots_ge_last n zs i Hr Im) as Gi.
    pose proof (roots_ge_last n zs (n - 1 - j) Hr Lj) as Gk.
    destruct (even_odd_m n Hn) as [[E En]|[O On]].
    + specialize (He E). lra.
    + assert (Ilt : (i < gl_m n - 1)%nat) by lia. specialize (Ho O i Ilt). lra.
  - assert (Jm : (j < gl_m n)%nat) by lia. specialize (Hd i j Hij Jm). lra.
Qed.

Theorem ref_nodes_inside n zs : (1 <= n)%nat -> length zs = gl_m n -> roots_ok n zs ->
  forall i, (i < n)%nat -> -1 < node n (-1) 1 zs i < 1.
Proof.
  intros Hn Hl Hr i Hi. destruct (gl_m_bounds n Hn) as (M1 & M2 & M3).
  rewrite ref_node by assumption.
  destruct (Nat.ltb_spec (n - 1 - i) (gl_m n)) as [Li|Li].
  - apply (roots_in_unit n); assumption.
  - assert (Im : (i < gl_m n)%nat) by lia. pose proof (roots_in_unit n zs i Hr Im). lra.
Qed.

Lemma wref_pos zp : -1 < fst zp < 1 -> snd zp <> 0 -> 0 < wref zp.
Proof.
  intros Hz Hp. unfold wref. apply Rdiv_lt_0_compat; [lra|].
  assert (0 < 1 - fst zp * fst zp) by nra.
  assert (0 < snd zp * snd zp) by nra.
  rewrite Rmult_assoc. apply Rmult_lt_0_compat; assumption.
Qed.

Lemma ref_weight_pos n zs : (1 <= n)%nat -> length zs = gl_m n -> roots_ok n zs -> pp_ok n zs ->
  forall i, (i < n)%nat -> 0 < weight n (-1) 1 zs i.
Proof.
  intros Hn Hl Hr Hp i Hi. destruct (gl_m_bounds n Hn) as (M1 & M2 & M3).
  rewrite row_R_weight by assumption.
  assert (K : forall k, (k < gl_m n)%nat -> 0 < (1 - -1) / 2 * wref (nth k zs (0, 0))).
  { intros k Hk. replace ((1 - -1) / 2) with 1 by field. rewrite Rmult_1_l.
    apply wref_pos; [apply (roots_in_unit n zs k Hr Hk)|apply Hp, Hk]. }
  destruct (Nat.ltb_spec (n - 1 - i) (gl_m n)); apply K; lia.
Qed.

(** the property's clauses on every interval, both orientations *)
Theorem valid_rule_of_roots n zs : (1 <= n)%nat -> length zs = gl_m n -> roots_ok n zs -> pp_ok n zs ->
  forall a b,
  (a < b ->
     (forall i j, (i < j)%nat -> (j < n)%nat -> node n a b zs i < node n a b zs j) /\
     (forall i, (i < n)%nat -> a < node n a b zs i < b) /\
     (forall i, (i < n)%nat -> 0 < weight n a b zs i)) /\
  (b < a ->
     (forall i j, (i < j)%nat -> (j < n)%nat -> node n a b zs j < node n a b zs i) /\
     (forall i, (i < n)%nat -> b < node n a b zs i < a) /\
     (forall i, (i < n)%nat -> weight n a b zs i < 0)).
Proof.
  intros Hn Hl Hr Hp a b.
  assert (T : forall i, (i < n)%nat ->
     node n a b zs i = (a + b) / 2 + (b - a) / 2 * node n (-1) 1 zs i /\
     weight n a b zs i = (b - a) / 2 * weight n (-1) 1 zs i) by (apply affine_transport; assumption).
  split; intros Hab; repeat split; intros.
  - destruct (T i ltac:(lia)) as [-> _]. destruct (T j ltac:(lia)) as [-> _].
    pose proof (ref_nodes_increasing n zs Hn Hl Hr i j ltac:(assumption) ltac:(assumption)). nra.
  - destruct (T i ltac:(assumption)) as [-> _]. pose proof (ref_nodes_inside n zs Hn Hl Hr i ltac:(assumption)). nra.
  - destruct (T i ltac:(assumption)) as [-> _]. pose proof (ref_nodes_inside n zs Hn Hl Hr i ltac:(assumption)). nra.
  - destruct (T i ltac:(assumption)) as [_ ->]. pose proof (ref_weight_pos n zs Hn Hl Hr Hp i ltac:(assumption)). nra.
  - destruct (T i ltac:(lia)) as [-> _]. destruct (T j ltac:(lia)) as [-> _].
    pose proof (ref_nodes_increasing n zs Hn Hl Hr i j ltac:(assumption) ltac:(assumption)). nra.
  - destruct (T i ltac:(assumption)) as [-> _]. pose proof (ref_nodes_inside n zs Hn Hl Hr i ltac:(assumption)). nra.
  - destruct (T i ltac:(assumption)) as [-> _]. pose proof (ref_nodes_inside n zs Hn Hl Hr i ltac:(assumption)). nra.
  - destruct (T i ltac:(assumption)) as [_ ->]. pose proof (ref_weight_pos n zs Hn Hl Hr Hp i ltac:(assumption)). nra.
Qed.

(** the hypotheses are necessary for the ordering: equal z's give coinciding nodes *)
Example ex_roots_ok_3 : roots_ok 3 [(3/4, 1); (0, 2)] /\ pp_ok 3 [(3/4, 1); (0, 2)].
Proof.
  unfold roots_ok, pp_ok, zval. change (gl_m 3) with 2%nat. cbn [Nat.sub]. repeat split.
  - simpl. lra.
  - intros i j Hij Hj. assert (i = 0%nat) by lia. assert (j = 1%nat) by lia. subst. simpl. lra.
  - simpl. discriminate.
  - intros _ i Hi. assert (i = 0%nat) by lia. subst. simpl. lra.
  - simpl. lra.
  - intros i Hi. destruct i as [|[|i]]; simpl; try lra; lia.
Qed.

(** ** 2. the Newton stage is Newton's method on the Legendre polynomial *)

(** Legendre polynomials by Bonnet's recurrence, with their predecessors: LegP k z = (P_k z, P_(k-1) z) *)
Fixpoint LegP (k : nat) (z : R) : R * R :=
  match k with
  | O => (1, 0)
  | S k' => let p := LegP k' z in (((2 * INR k' + 1) * z * fst p - INR k' * snd p) / (INR k' + 1), fst p)
  end.
Definition Leg (k : nat) (z : R) : R := fst (LegP k z).

Lemma Leg_0 z : Leg 0 z = 1. Proof. reflexivity. Qed.
Lemma Leg_1 z : Leg 1 z = z. Proof. unfold Leg. simpl. field. Qed.
Lemma LegP_snd k z : snd (LegP (S k) z) = Leg k z. Proof. reflexivity. Qed.
Lemma INR_pos1 k : INR k + 1 <> 0. Proof. pose proof (pos_INR k). lra. Qed.
(** (k+2) P_(k+2) = (2k+3) z P_(k+1) - (k+1) P_k *)
Lemma Leg_SS k z : Leg (S (S k)) z = ((2 * INR (S k) + 1) * z * Leg (S k) z - INR (S k) * Leg k z) / (INR (S k) + 1).
Proof. reflexivity. Qed.
Lemma Leg_bonnet k z : (INR k + 2) * Leg (S (S k)) z = (2 * INR k + 3) * z * Leg (S k) z - (INR k + 1) * Leg k z.
Proof.
  rewrite Leg_SS. pose proof (INR_pos1 (S k)) as H. rewrite S_INR in *. field. lra.
Qed.

(** the loop of the source computes exactly this pair *)
Lemma legendre_LegP cnt : forall j z, 
  legendre ROps cnt (Z.of_nat j) z (fst (LegP j z)) (snd (LegP j z)) = LegP (j + cnt) z.
Proof.
  induction cnt as [|c IH]; intros j z; cbn [legendre].
  - now rewrite Nat.add_0_r, <- surjective_pairing.
  - replace (Z.of_nat j + 1)%Z with (Z.of_nat (S j)) by lia.
    replace (j + S c)%nat with (S j + c)%nat by lia. rewrite <- IH. cbn [LegP fst snd].
    f_equal. unfold two, one. cbn. rewrite <- INR_IZR_INZ. unfold Rdiv. rewrite ?Rinv_1, ?Rmult_1_r. reflexivity.
Qed.
Theorem legendre_is_Leg n z : legendre ROps n 0%Z z (one ROps) (zero ROps) = LegP n z.
Proof.
  replace (one ROps) with 1 by (unfold one; cbn; field). replace (zero ROps) with 0 by (unfold zero; cbn; field).
  exact (legendre_LegP n 0%nat z).
Qed.

(** derivatives, by the differentiated recurrence *)
Fixpoint dLegP (k : nat) (z : R) : R * R :=
  match k with
  | O => (0, 0)
  | S k' => let p := LegP k' z in let d := dLegP k' z in
            (((2 * INR k' + 1) * (fst p + z * fst d) - INR k' * snd d) / (INR k' + 1), fst d)
  end.
Definition dLeg (k : nat) (z : R) : R := fst (dLegP k z).

Lemma is_derive_LegP k : forall z : R,
  is_derive (fun x : R => fst (LegP k x)) z (fst (dLegP k z)) /\ is_derive (fun x : R => snd (LegP k x)) z (snd (dLegP k z)).
Proof.
  induction k as [|k IH]; intros z.
  - cbn [LegP dLegP fst snd]. split; apply (is_derive_const (K := R_AbsRing) (V := R_NormedModule)).
  - destruct (IH z) as [D1 D2]. cbn [LegP dLegP fst snd]. split; [|exact D1].
    pose proof (INR_pos1 k) as Hk.
    eapply is_derive_ext with (f := fun x : R => (2 * INR k + 1) / (INR k + 1) * (x * fst (LegP k x)) + (- INR k / (INR k + 1)) * snd (LegP k x)).
    { intros t. change (@eq R ((2 * INR k + 1) / (INR k + 1) * (t * fst (LegP k t)) + - INR k / (INR k + 1) * snd (LegP k t)) (((2 * INR k + 1) * t * fst (LegP k t) - INR k * snd (LegP k t)) / (INR k + 1))). field. exact Hk. }
    evar_last.
    { apply (is_derive_plus (K := R_AbsRing) (V := R_NormedModule)
               (fun x : R => (2 * INR k + 1) / (INR k + 1) * (x * fst (LegP k x))) (fun x : R => - INR k / (INR k + 1) * snd (LegP k x))).
      - apply is_derive_scal.
        apply (is_derive_mult (K := R_AbsRing) (fun x : R => x) (fun x : R => fst (LegP k x)) z 1 (fst (dLegP k z))).
        + apply (is_derive_id (K := R_AbsRing)).
        + exact D1.
        + intros; apply Rmult_comm.
      - apply is_derive_scal. exact D2. }
    unfold plus, mult, scal, one; cbn. unfold mult; cbn. field. exact Hk.
Qed.
Theorem is_derive_Leg k z : is_derive (Leg k) z (dLeg k z).
Proof. exact (proj1 (is_derive_LegP k z)). Qed.

(** the classical identities, by induction from Bonnet's recurrence alone:
    (z^2-1) P_k' = k (z P_k - P_(k-1))   and   k P_k = z P_k' - P_(k-1)' *)
Lemma Leg_identities k z :
  (z * z - 1) * fst (dLegP k z) = INR k * (z * fst (LegP k z) - snd (LegP k z)) /\
  INR k * fst (LegP k z) = z * fst (dLegP k z) - snd (dLegP k z).
Proof.
  induction k as [|k [I3 I4]].
  - cbn. split; ring.
  - pose proof (INR_pos1 k) as Hk. rewrite S_INR. cbn [LegP dLegP fst snd].
    set (P := fst (LegP k z)) in *. set (Q := snd (LegP k z)) in *.
    set (A := fst (dLegP k z)) in *. set (B := snd (dLegP k z)) in *.
    assert (EB : B = z * A - INR k * P) by lra.
    (* P_(k+1)' = (k+1) P_k + z P_k' *)
    assert (E2 : ((2 * INR k + 1) * (P + z * A) - INR k * B) / (INR k + 1) = (INR k + 1) * P + z * A).
    { rewrite EB. field. exact Hk. }
    rewrite E2. split.
    + replace ((z * z - 1) * ((INR k + 1) * P + z * A)) with ((INR k + 1) * (z * z - 1) * P + z * ((z * z - 1) * A)) by ring.
      rewrite I3. field. exact Hk.
    + replace (z * ((INR k + 1) * P + z * A) - A) with ((INR k + 1) * z * P + (z * z - 1) * A) by ring.
      rewrite I3. field. exact Hk.
Qed.

(** the quantity pp of the source, n (z p1 - p2)/(z^2 - 1), is the derivative of P_n at z *)
Theorem pp_is_derivative n z : z * z <> 1 ->
  INR n * (z * Leg n z - snd (LegP n z)) / (z * z - 1) = dLeg n z.
Proof.
  intros Hz. destruct (Leg_identities n z) as [I3 _]. unfold Leg, dLeg. rewrite <- I3. field. lra.
Qed.

(** one pass of the while loop: z <- z - P_n(z)/P_n'(z), stop when the step is at most 1e-14 *)
Lemma newton_unfold {T} (Ops : NumOps T) f n nT z :
  newton Ops (S f) n nT z =
  let '(p1, p2) := legendre Ops n 0%Z z (one Ops) (zero Ops) in
  let pp := ndiv Ops (nmul Ops nT (nsub Ops (nmul Ops z p1) p2)) (nsub Ops (nmul Ops z z) (one Ops)) in
  let z' := nsub Ops z (ndiv Ops p1 pp) in
  if nleb Ops (nabs Ops (nsub Ops z' z)) (gl_eps Ops) then Ok (z', pp) else newton Ops f n nT z'.
Proof. reflexivity. Qed.

Definition eps14 : R := 1 / 100000000000000.
Definition newton_next (n : nat) (z : R) : R := z - Leg n z / dLeg n z.

Theorem newton_step_R f n z : z * z <> 1 ->
  newton ROps (S f) n (INR n) z =
  if Rleb (Rabs (newton_next n z - z)) eps14 then Ok (newton_next n z, dLeg n z) else newton ROps f n (INR n) (newton_next n z).
Proof.
  intros Hz. rewrite newton_unfold, legendre_is_Leg. rewrite (surjective_pairing (LegP n z)).
  cbn [nleb nabs nsub ndiv nmul ROps]. fold (Leg n z).
  replace (one ROps) with 1 by (unfold one; cbn; field).
  rewrite (pp_is_derivative n z Hz). unfold newton_next.
  replace (gl_eps ROps) with eps14 by (unfold gl_eps, eps14; cbn; reflexivity).
  reflexivity.
Qed.

(** whatever the fuel and the starting point: a returned pair (z', pp) is one Newton step away from an iterate z1 with
    pp = P_n'(z1), |z' - z1| <= 1e-14, i.e. |P_n(z1)| <= 1e-14 |P_n'(z1)|; all iterates are the Newton iterates of z0 *)
Fixpoint newton_iter (n : nat) (k : nat) (z : R) : R := match k with O => z | S k' => newton_iter n k' (newton_next n z) end.

Theorem newton_post n : forall fuel z0 z' pp,
  (forall k, (k < fuel)%nat -> newton_iter n k z0 * newton_iter n k z0 <> 1) ->
  newton ROps fuel n (INR n) z0 = Ok (z', pp) ->
  exists k, (k < fuel)%nat /\
    let z1 := newton_iter n k z0 in
    z' = newton_next n z1 /\ pp = dLeg n z1 /\ Rabs (z' - z1) <= eps14 /\
    (forall j, (j < k)%nat -> eps14 < Rabs (newton_next n (newton_iter n j z0) - newton_iter n j z0)).
Proof.
  induction fuel as [|f IH]; intros z0 z' pp Hne H; [discriminate|].
  rewrite newton_step_R in H by (apply (Hne 0%nat); lia).
  destruct (Rleb_spec (Rabs (newton_next n z0 - z0)) eps14) as [Hle|Hgt].
  - inversion H; subst. exists 0%nat. cbn [newton_iter]. split; [lia|]. split; [reflexivity|]. split; [reflexivity|]. split; [exact Hle|]. intros j Hj; lia.
  - destruct (IH (newton_next n z0) z' pp) as (k & Hk & E1 & E2 & E3 & E4); auto.
    { intros k Hk. apply (Hne (S k)). lia. }
    exists (S k). cbn [newton_iter]. split; [lia|]. split; [exact E1|]. split; [exact E2|]. split; [exact E3|].
    intros j Hj. destruct j; cbn [newton_iter]; [lra|]. apply E4. lia.
Qed.

(** a returned z' is a near-root: |P_n(z1)| <= 1e-14 |P_n'(z1)| at the last iterate z1 (when P_n'(z1) <> 0) *)
Corollary newton_residual n z1 : dLeg n z1 <> 0 -> Rabs (newton_next n z1 - z1) <= eps14 ->
  Rabs (Leg n z1) <= eps14 * Rabs (dLeg n z1).
Proof.
  intros Hd H. unfold newton_next in H.
  replace (z1 - Leg n z1 / dLeg n z1 - z1) with (- (Leg n z1 / dLeg n z1)) in H by ring.
  rewrite Rabs_Ropp in H. unfold Rdiv in H. rewrite Rabs_mult, Rabs_Rinv in H by assumption.
  pose proof (Rabs_pos_lt _ Hd) as Hp.
  apply (Rmult_le_compat_r (Rabs (dLeg n z1))) in H; [|lra].
  rewrite Rmult_assoc, Rinv_l in H by lra. lra.
Qed.

(** the Newton stage of the model: every delivered pair is the last Newton step from the Chebyshev-like guess *)
Lemma nofZ_INR n : nofZ ROps (Z.of_nat n) = INR n.
Proof. cbn. now rewrite <- INR_IZR_INZ. Qed.

Local Opaque newton.
Lemma gl_roots_from_nth cnt : forall i n nT zs, gl_roots_from ROps cnt i n nT = Ok zs ->
  forall j, (j < cnt)%nat -> newton ROps newton_fuel n nT (gl_guess ROps nT (i + Z.of_nat j)) = Ok (nth j zs (0, 0)).
Proof.
  induction cnt as [|c IH]; intros i n nT zs H j Hj; [lia|].
  cbn [gl_roots_from] in H.
  destruct (newton ROps newton_fuel n nT (gl_guess ROps nT i)) as [zp| | |] eqn:E; try discriminate.
  cbn [rbind] in H.
  destruct (gl_roots_from ROps c (i + 1) n nT) as [rest| | |] eqn:E2; try discriminate.
  cbn [rbind] in H. inversion H; subst zs.
  destruct j as [|j].
  - cbn [nth]. now rewrite Z.add_0_r.
  - cbn [nth]. rewrite <- (IH (i + 1)%Z n nT rest E2 j ltac:(lia)).
    replace (i + Z.of_nat (S j))%Z with (i + 1 + Z.of_nat j)%Z by lia. reflexivity.
Qed.

Definition guess (n : nat) (i : nat) : R := gl_guess ROps (INR n) (Z.of_nat i).

Theorem roots_are_newton_steps n zs : gl_roots ROps n = Ok zs ->
  (forall i k, (i < gl_m n)%nat -> (k < newton_fuel)%nat -> newton_iter n k (guess n i) * newton_iter n k (guess n i) <> 1) ->
  forall i, (i < gl_m n)%nat ->
  exists k, (k < newton_fuel)%nat /\
    let z1 := newton_iter n k (guess n i) in
    nth i zs (0, 0) = (newton_next n z1, dLeg n z1) /\ Rabs (newton_next n z1 - z1) <= eps14 /\
    (forall j, (j < k)%nat -> eps14 < Rabs (newton_next n (newton_iter n j (guess n i)) - newton_iter n j (guess n i))).
Proof.
  intros H Hne i Hi. unfold gl_roots in H. rewrite nofZ_INR in H.
  pose proof (gl_roots_from_nth _ _ _ _ _ H i Hi) as E. rewrite Z.add_0_l in E. fold (guess n i) in E.
  destruct (nth i zs (0, 0)) as [z' pp] eqn:En.
  destruct (newton_post n newton_fuel (guess n i) z' pp (fun k Hk => Hne i k Hi Hk) E) as (k & Hk & E1 & E2 & E3 & E4).
  exists k. split; [exact Hk|]. cbn zeta in *. rewrite E1, E2 in *. split; [reflexivity|]. split; [exact E3|exact E4].
Qed.

(** *** non-vacuity (the examples that need the value of the guess cos(M_PI/2) for the decimal M_PI are in C12_Examples_R.v, which uses
    Interval and is kept out of the dependency closure of the property file): from the starting point 0, n = 1 *)
Example ex_newton_from_0 : newton ROps newton_fuel 1 (INR 1) 0 = Ok (newton_next 1 0, dLeg 1 0) /\ newton_next 1 0 = 0 /\ dLeg 1 0 = 1 /\
  (forall k, (k < newton_fuel)%nat -> newton_iter 1 k 0 * newton_iter 1 k 0 <> 1).
Proof.
  assert (N : newton_next 1 0 = 0) by (unfold newton_next, Leg, dLeg; cbn; field).
  assert (D : dLeg 1 0 = 1) by (unfold dLeg; cbn; field).
  assert (I : forall k, newton_iter 1 k 0 = 0) by (induction k; cbn [newton_iter]; [reflexivity|now rewrite N]).
  repeat split; auto.
  - change newton_fuel with (S 99). rewrite newton_step_R by lra.
    rewrite N. replace (0 - 0) with 0 by ring. rewrite Rabs_R0.
    destruct (Rleb_spec 0 eps14) as [|H]; [reflexivity|]. unfold eps14 in H. lra.
  - intros k _. rewrite I. lra.
Qed.

Example ex_roots_ok_1 : roots_ok 1 [(0, 1)] /\ pp_ok 1 [(0, 1)].
Proof.
  unfold roots_ok, pp_ok, zval. change (gl_m 1) with 1%nat. cbn [Nat.sub nth fst snd]. repeat split; try lra.
  - intros i j Hij Hj. lia.
  - cbn. discriminate.
  - intros _ i Hi. lia.
  - intros i Hi. assert (i = 0%nat) by lia. subst. cbn. lra.
Qed.
