(** * C06 model, second part: the diagnostics path of Integrate / Adaptive_Simpson_Integration (src/Integration.cpp:43-103) as GammaQint
    drives it.  C06_Model.v models the VALUE of Integrate; here the same recursion also carries the flag  bool& warning  that
    Adaptive_Simpson_Integration sets when it reaches the recursion floor without meeting the tolerance, and Integrate's test
    std::isnan(result); GammaQint's panel loop counts the panels whose Integrate call printed "did not converge" / "Result is nan".
    Line by line after the C++; no proofs here (C06_Proofs_Warn.v shows the first components are exactly C06_Model.v's functions). *)
From Coq Require Import ZArith List Bool.
From LP Require Import Num C06_Model.
Local Open Scope Z_scope.

Section Model2.
Context {T : Type} (Ops : NumOps T).
Declare Scope num_scope.
Local Notation "x + y" := (nadd Ops x y) : num_scope.
Local Notation "x - y" := (nsub Ops x y) : num_scope.
Local Notation "x * y" := (nmul Ops x y) : num_scope.
Local Notation "x / y" := (ndiv Ops x y) : num_scope.
Delimit Scope num_scope with num.
Local Notation "'#' k" := (nofZ Ops k) (at level 1, format "'#' k").
Local Notation dec := (ndec Ops).

(* if(bottom <= 0 || fabs(S2 - S) <= 15 * epsilon) { if(bottom <= 0 && fabs(S2 - S) > 15 * epsilon) warning = true; return S2 + (S2 - S) / 15; }
   else return ASI(left, bottom-1, warning) + ASI(right, bottom-1, warning);        (warning is a reference: the flags are or-ed) *)
Fixpoint asr_w (bottom : nat) (f : T -> T) (a b epsilon S fa fb fc : T) : T * bool :=
  let c := ((a + b) / #2)%num in
  let h := (b - a)%num in
  let d := ((a + c) / #2)%num in
  let e := ((b + c) / #2)%num in
  let fd := f d in
  let fe := f e in
  let Sleft := ((h / #12) * (fa + #4 * fd + fc))%num in
  let Sright := ((h / #12) * (fc + #4 * fe + fb))%num in
  let S2 := (Sleft + Sright)%num in
  match bottom with
  | O => ((S2 + (S2 - S) / #15)%num, ngtb Ops (nabs Ops (S2 - S)%num) (#15 * epsilon)%num)
  | S k =>
      if nleb Ops (nabs Ops (S2 - S)%num) (#15 * epsilon)%num then ((S2 + (S2 - S) / #15)%num, false)
      else
        let l := asr_w k f a c (epsilon / #2)%num Sleft fa fc fd in
        let r := asr_w k f c b (epsilon / #2)%num Sright fc fb fe in
        ((fst l + fst r)%num, snd l || snd r)
  end.

(* Integrate(func, a, b, epsilon, maxRecursionDepth): value, "did not converge" printed, "Result is nan" printed *)
Definition integrate_w (f : T -> T) (a b epsilon : T) (depth : nat) : T * (bool * bool) :=
  if neqb Ops a b then (n0 Ops, (false, false))
  else
    let swap := ngtb Ops a b in
    let a' := if swap then b else a in
    let b' := if swap then a else b in
    let sign := if swap then nneg Ops (n1 Ops) else n1 Ops in
    let c := ((a' + b') / #2)%num in
    let h := (b' - a')%num in
    let fa := f a' in let fb := f b' in let fc := f c in
    let S := ((h / #6) * (fa + #4 * fc + fb))%num in
    let rw := asr_w depth f a' b' (nabs Ops epsilon) S fa fb fc in
    ((sign * fst rw)%num, (snd rw, nisnan Ops (fst rw))).

(* GammaQint's panel loop with the number of panels that printed each diagnostic *)
Fixpoint panel_loop_w (fuel : nat) (f : T -> T) (x w t1 acc : T) (nw nn : Z) : res (T * (Z * Z)) :=
  if nltb Ops t1 x then
    match fuel with
    | O => Fuel
    | S k =>
        let r := integrate_w f t1 (nmin Ops x (t1 + w)%num) (dec 1 100000000) 20 in
        let acc := (acc + fst r)%num in
        panel_loop_w k f x w (t1 + w)%num acc (if fst (snd r) then nw + 1 else nw) (if snd (snd r) then nn + 1 else nn)
    end
  else Ok (acc, (nw, nn)).

Definition gammaq_int_w (x a : T) : res (T * (Z * Z)) :=
  (let* gln := gammaln Ops a in
   let N := #10 in
   let tPeak := (a - n1 Ops)%num in
   let tMin := nmax Ops (n0 Ops) (tPeak - N * nsqrt Ops a)%num in
   let tMax := (tPeak + N * nsqrt Ops a)%num in
   let* gw :=
     if ngtb Ops x tMax then Ok (n1 Ops, (0, 0))
     else if nltb Ops x tMin then Ok (n0 Ops, (0, 0))
     else
       let integrand := fun t => nexp Ops (nneg Ops gln - t + nln Ops t * (a - n1 Ops))%num in
       let tMin := if nltb Ops x tMin then n0 Ops else tMin in
       let panel_width := nsqrt Ops a in
       panel_loop_w 64 integrand x panel_width tMin (n0 Ops) 0 0 in
   let gammaP := nmin Ops (n1 Ops) (nmax Ops (n0 Ops) (fst gw)) in
   Ok ((n1 Ops - gammaP)%num, snd gw))%res.

End Model2.
