(** * C11 proofs over the reals, for EVERY objective (no unimodality):
    - Brent::Minimize never leaves its bracket: every trial point and the returned point lie in [min(ax,cx), max(ax,cx)],
      the interval [a,b] only shrinks, and no point is evaluated twice in a row (u <> x);
    - the trial point of amotry is the point c + fac*(p_hi - c), c = (psum - p_hi)/ndim, coordinate by coordinate:
      fac = -1 reflects the vertex through c, fac = 2 doubles its distance from c, fac = 0.5 halves it;
    - with the default tolerance the 1-D theorems apply (3e-8 >= 0). *)
From Coq Require Import ZArith List Bool Reals Lra Lia Psatz.
From LP Require Import Num NumR OrdLaws C11_Model C11_Model2 C11_Proofs C11_Proofs_Conv.
Import ListNotations.
Local Open Scope R_scope.

Section Box.
Variable f : R -> R.

(** Brent's [a,b] lies in [lo,hi] and contains the current point *)
Definition BC (lo hi : R) (s : @bst R) : Prop := lo <= s_a s /\ s_a s <= s_x s <= s_b s /\ s_b s <= hi.

Lemma brent_step_box tol lo hi s : 0 <= tol -> BC lo hi s ->
  match brent_step ROps f tol s with
  | BDone xm fm => xm = s_x s
  | BNext s' u => BC lo hi s' /\ (s_a s <= u <= s_b s /\ u <> s_x s) /\ s_a s <= s_a s' /\ s_b s' <= s_b s
  end.
Proof.
  intros Htol (Hlo & Hx & Hhi). unfold brent_step. destruct (brent_done ROps tol s) eqn:ED; [reflexivity|].
  pose proof (brent_trial_in tol s Htol Hx ED) as HT. cbv zeta in HT.
  destruct (brent_trial ROps tol s) as [[d e] u]. cbn [snd] in HT. destruct HT as [Hu Hne].
  destruct s as [a b d0 e0 v w x fv fw fx]. cbn [s_a s_b s_x s_fx] in *.
  unfold ngeb. cbn [nleb nltb ROps].
  destruct (Rleb_spec (f u) fx) as [E1|E1].
  - destruct (Rleb_spec x u) as [E2|E2]; unfold BC; cbn [s_a s_b s_x fst snd]; repeat split; try assumption; lra.
  - destruct (Rltb_spec u x) as [E2|E2]; cbn [fst snd];
      (destruct (Rleb (f u) fw || neqb ROps w x); [|destruct (Rleb (f u) fv || neqb ROps v x || neqb ROps v w)]);
      unfold BC; cbn [s_a s_b s_x]; repeat split; try assumption; lra.
Qed.

Lemma brent_loop_box tol lo hi : 0 <= tol -> forall fuel s tr xm fm tr',
  BC lo hi s -> brent_loop ROps f fuel tol s tr = Ok (xm, fm, tr') ->
  lo <= xm <= hi /\ exists ev, tr' = ev ++ tr /\ Forall (fun p => lo <= p <= hi) ev.
Proof.
  intros Htol. induction fuel as [|k IH]; intros s tr xm fm tr' HI H; cbn [brent_loop] in H; [discriminate|].
  pose proof (brent_step_box tol lo hi s Htol HI) as HS.
  destruct (brent_step ROps f tol s) as [x1 f1|s1 u].
  - inversion H; subst. destruct HI as (A & B & C). split; [lra|]. exists []. split; [reflexivity|constructor].
  - destruct HS as (HI' & (Hu & _) & _). destruct (IH _ _ _ _ _ HI' H) as (Hxm & ev & E & F).
    split; [exact Hxm|]. exists (ev ++ [u]). split; [rewrite <- app_assoc; exact E|].
    apply Forall_app. split; [exact F|]. constructor; [|constructor]. destruct HI as (A & B & C). lra.
Qed.

(** Brent::Minimize on a bracket whose middle abscissa lies between the outer two *)
Theorem brent_stays_in_bracket tol (bk : @brk R) tr xm fm tr' : 0 <= tol ->
  Rmin (b_ax bk) (b_cx bk) <= b_bx bk <= Rmax (b_ax bk) (b_cx bk) ->
  brent ROps f tol bk tr = Ok (xm, fm, tr') ->
  Rmin (b_ax bk) (b_cx bk) <= xm <= Rmax (b_ax bk) (b_cx bk) /\
  exists ev, tr' = ev ++ b_bx bk :: tr /\ Forall (fun p => Rmin (b_ax bk) (b_cx bk) <= p <= Rmax (b_ax bk) (b_cx bk)) ev.
Proof.
  intros Htol HB EM. unfold brent in EM. destruct bk as [ax bx cx fa fb fc]. cbn [b_ax b_bx b_cx] in *.
  apply (brent_loop_box tol (Rmin ax cx) (Rmax ax cx) Htol) in EM; [exact EM|].
  unfold BC; cbn [s_a s_b s_x]. unfold ngtb. cbn [nltb ROps].
  unfold Rmin, Rmax in *. destruct (Rle_dec ax cx), (Rltb_spec ax cx), (Rltb_spec cx ax); lra.
Qed.

Lemma btw_weak (bk : @brk R) : Btw bk -> Rmin (b_ax bk) (b_cx bk) <= b_bx bk <= Rmax (b_ax bk) (b_cx bk).
Proof. unfold Btw, Rmin, Rmax. destruct (Rle_dec (b_ax bk) (b_cx bk)); lra. Qed.

(** Find_Minimum: the returned point lies between the outer abscissae of the bracket Bracket found, and so does every point
    Brent evaluated *)
Theorem find_minimum_in_bracket xl xr tol xm fm tr : xl <> xr -> 0 <= tol ->
  find_minimum_full ROps f xl xr tol = Ok (xm, fm, tr) ->
  exists bk tr0 ev, bracket ROps f xl xr = Ok (bk, tr0) /\ Btw bk /\
    Rmin (b_ax bk) (b_cx bk) <= xm <= Rmax (b_ax bk) (b_cx bk) /\
    tr = rev tr0 ++ b_bx bk :: ev /\ Forall (fun p => Rmin (b_ax bk) (b_cx bk) <= p <= Rmax (b_ax bk) (b_cx bk)) ev.
Proof.
  intros Hne Htol. unfold find_minimum_full.
  destruct (bracket ROps f xl xr) as [[bk tr0]| | |] eqn:EB; cbn [rbind]; try discriminate. cbn [fst snd].
  destruct (brent ROps f tol bk tr0) as [[[x1 f1] tr1]| | |] eqn:EM; cbn [rbind]; try discriminate. cbn [fst snd].
  intros H; inversion H; subst.
  pose proof (bracket_btw f _ _ _ _ Hne EB) as HB.
  destruct (brent_stays_in_bracket tol bk tr0 xm fm tr1 Htol (btw_weak bk HB) EM) as (Hx & ev & E & F).
  exists bk, tr0, (rev ev). split; [reflexivity|]. split; [exact HB|]. split; [exact Hx|]. split.
  - rewrite E. rewrite rev_app_distr. cbn [rev]. rewrite <- app_assoc. reflexivity.
  - apply Forall_rev. exact F.
Qed.
End Box.

(** ** the trial point of amotry, coordinate by coordinate *)
Lemma amotry_point_R (s : @nmst R) ndim ihi fac : (0 < ndim)%nat ->
  amotry_point ROps s ndim ihi fac =
  map (fun ab => let c := (fst ab - snd ab) / IZR (Z.of_nat ndim) in c + fac * (snd ab - c)) (combine (nm_psum s) (row (nm_p s) ihi)).
Proof.
  intros Hn. unfold amotry_point. apply map_ext. intros [ps ph]. cbn [fst snd]. unfold one. cbn [nadd nsub nmul ndiv nofZ n1 ROps].
  assert (IZR (Z.of_nat ndim) <> 0) by (apply not_0_IZR; lia). field. assumption.
Qed.

(** the three coefficients the code uses: reflection through c, expansion to twice the distance, contraction to half *)
Lemma amotry_coefficients (c ph : R) :
  (c + (-1) * (ph - c)) - c = - (ph - c) /\ (c + 2 * (ph - c)) - c = 2 * (ph - c) /\ (c + (1 / 2) * (ph - c)) - c = (ph - c) / 2.
Proof. repeat split; lra. Qed.

(** ** the default tolerance *)
Lemma default_tol_R : default_tol ROps = 3 / 100000000.
Proof. reflexivity. Qed.

Theorem find_minimum_default_converges f xs xl xr xm tr : SUnimodal f xs -> xl <> xr ->
  find_minimum_default ROps f xl xr = Ok (xm, tr) -> Rabs (xm - xs) <= 2 * (3 / 100000000 * Rabs xm + 1 / 4503599627370496).
Proof.
  intros HU Hne H. unfold find_minimum_default in H. rewrite default_tol_R in H.
  apply (find_minimum_converges f xs HU xl xr _ xm tr Hne); [lra|exact H].
Qed.

Theorem find_maximum_default_converges f xs xl xr xm tr : SUnimodalMax f xs -> xl <> xr ->
  find_maximum_default ROps f xl xr = Ok (xm, tr) -> Rabs (xm - xs) <= 2 * (3 / 100000000 * Rabs xm + 1 / 4503599627370496).
Proof.
  intros HU Hne H. unfold find_maximum_default in H. rewrite default_tol_R in H.
  apply (find_maximum_converges f xs xl xr _ xm tr HU Hne); [lra|exact H].
Qed.

(** non-vacuity: the run of C11_Proofs_Conv.ex_find_minimum_R returns 3, between the bracket ends 1 and exc *)
Example ex_in_bracket : exists bk tr0 ev, bracket ROps fq 1 3 = Ok (bk, tr0) /\ Btw bk /\
    Rmin (b_ax bk) (b_cx bk) <= 3 <= Rmax (b_ax bk) (b_cx bk) /\
    [1; 3; exc; 3] = rev tr0 ++ b_bx bk :: ev /\ Forall (fun p => Rmin (b_ax bk) (b_cx bk) <= p <= Rmax (b_ax bk) (b_cx bk)) ev.
Proof.
  pose proof ex_find_minimum_R as E. unfold find_minimum, rmap in E.
  destruct (find_minimum_full ROps fq 1 3 1) as [[[x1 f1] t1]| | |] eqn:EF; try discriminate. cbn [fst snd] in E. inversion E; subst.
  apply (find_minimum_in_bracket fq 1 3 1 3 f1 _ ltac:(lra) ltac:(lra) EF).
Qed.
