(** * C15 model, second part (seventh pass): the scalar helpers of src/Special_Functions.cpp the eigen code rests on
    (Sign(double), Sign(double, double), Relative_Difference), the guards of Matrix::Trace / Determinant / Invertible / Inverse
    in front of the bodies modelled in C15_Model.v, Eigenvectors, and Householder_Matrix written statement by statement through
    Outer_Vector_Product, operator*(double, Matrix) = Matrix::Product(double), Matrix::Minus and Identity_Matrix
    (C15_Model.householder folds these into one expression per entry).  Same conventions as C15_Model.v; no proofs here. *)
From Coq Require Import ZArith List Bool.
From LP Require Import Num C15_Model.
Import ListNotations.

Section C15b.
Context {T : Type} (Ops : NumOps T).
Declare Scope num2_scope.
Local Notation "x + y" := (nadd Ops x y) : num2_scope.
Local Notation "x - y" := (nsub Ops x y) : num2_scope.
Local Notation "x * y" := (nmul Ops x y) : num2_scope.
Local Notation "x / y" := (ndiv Ops x y) : num2_scope.
Local Notation "- x" := (nneg Ops x) : num2_scope.
Delimit Scope num2_scope with num2.
Local Open Scope num2_scope.
Let zero := n0 Ops.
Let one := n1 Ops.
Let two := nofZ Ops 2.

(** int Sign(double arg): if(arg > 0.0) return 1; else if(arg == 0.0) return 0; else return -1;  (NaN: -1) *)
Definition sign_int (arg : T) : Z :=
  if ngtb Ops arg zero then 1%Z else if neqb Ops arg zero then 0%Z else (-1)%Z.
(** double Sign(double x, double y): if(Sign(x) == Sign(y)) return x; else return -1.0 * x; *)
Definition sign_xy (x y : T) : T :=
  if Z.eqb (sign_int x) (sign_int y) then x else (- one) * x.

(** double Relative_Difference(double a, double b):
      d = std::fabs(a - b); max = std::max(fabs(a), fabs(b)); if(max == 0.0) return 0.0; return d / max; *)
Definition relative_difference (a b : T) : T :=
  let d := nabs Ops (a - b) in
  let max := nmax Ops (nabs Ops a) (nabs Ops b) in
  if neqb Ops max zero then zero else d / max.

(** Matrix::Square *)
Definition msquare (m : (list (list T))) : bool := Nat.eqb (nrows m) (ncols m).
(** Matrix::Trace: exit unless rows == columns; tr = 0.0; tr += components[i][i] *)
Definition mtrace (m : (list (list T))) : res T :=
  if negb (msquare m) then Exit
  else Ok (fold_left (fun tr i => tr + ment Ops m i i) (seq 0 (nrows m)) zero).
(** Matrix::Determinant with its guard: exit unless Square() *)
Definition determinant_g (m : (list (list T))) : res T :=
  if negb (msquare m) then Exit else Ok (determinant Ops (nrows m) m).
(** Matrix::Invertible: false unless Square(); Determinant() != 0.0 *)
Definition invertible (m : (list (list T))) : bool :=
  if negb (msquare m) then false else nneb Ops (determinant Ops (nrows m) m) zero.
(** Matrix::Inverse with both guards: exit unless Square(), exit unless Invertible(); then the Gauss-Jordan body *)
Definition inverse_g (m : (list (list T))) : res (list (list T)) :=
  if negb (msquare m) then Exit
  else if negb (invertible m) then Exit
  else inverse Ops m.

(** Eigenvectors(M) = Eigensystem(M).second *)
Definition eigenvectors (m : (list (list T))) : res (list (list T)) :=
  rbind (eigensystem Ops m) (fun ps => Ok (map (@snd T (list T)) ps)).

(** Outer_Vector_Product: M[i][j] = lhs[i] * rhs[j] *)
Definition outer (l r : list T) : (list (list T)) := map (fun a => map (fun b => a * b) r) l.
(** operator*(double s, const Matrix& M) = M.Product(s): s * components[i][j] *)
Definition smul_mat (s : T) (m : (list (list T))) : (list (list T)) := map (map (fun c => s * c)) m.
(** Matrix::Minus: components[i][j] - M[i][j] (dimensions agree in every call below) *)
Definition mminus (a b : (list (list T))) : (list (list T)) :=
  map (fun p => map (fun q => fst q - snd q) (combine (fst p) (snd p))) (combine a b).
(** operator*(double s, const Vector& v): v[i] * s;  Vector::operator-: components[i] - v[i] *)
Definition smul_vec (s : T) (v : list T) : list T := map (fun c => c * s) v.
Definition vminus (a b : list T) : list T := map (fun q => fst q - snd q) (combine a b).
(** Householder_Matrix, one definition per statement:
      Vector x = M.Return_Column(0); double alpha = Sign(x.Norm(), -x[0]); Vector e1(x.Size(), 0.0); e1[0] = 1.0;
      Vector u = x - alpha * e1; u.Normalize(); Matrix Q = Identity_Matrix(x.Size()) - 2.0 * Outer_Vector_Product(u, u); *)
Definition householder_steps (m : (list (list T))) : (list (list T)) :=
  let x := mcol Ops m 0 in
  let alpha := sign_xy (vnorm Ops x) (- nth0 Ops x 0) in
  let e1 := set_nth (repeat zero (length x)) 0 one in
  let u := vnormalize Ops (vminus x (smul_vec alpha e1)) in
  mminus (identity Ops (length x)) (smul_mat two (outer u u)).
End C15b.
