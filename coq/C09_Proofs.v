(** * C09 proofs: the look-up is history free.
    Everything here is proved from [OrdLaws Ops] alone: the comparison is a strict total order, the
    arithmetic operations of [Ops] are uninterpreted.  The statements therefore hold verbatim for
    IEEE doubles (NaN excluded), rounding included. *)
From Coq Require Import ZArith List Bool Lia.
From LP Require Import Num NumR OrdLaws C09_Model.
Import ListNotations.
Local Open Scope Z_scope.

(** ** C++ integer conversions are the identity on the ranges that occur *)
Lemma u32_id z : 0 <= z < 4294967296 -> u32 z = z.
Proof. intros H. unfold u32. now apply Z.mod_small. Qed.
Lemma i32_id z : -2147483648 <= z < 2147483648 -> i32 z = z.
Proof. intros H. unfold i32. rewrite Z.mod_small by lia. lia. Qed.
(** the unsigned difference behind correlated_calls: correlated iff jLast <= j < jLast + 10 *)
Lemma still_correlated_spec j jL : 0 <= j < 2147483648 -> 0 <= jL < 2147483648 ->
  still_correlated j jL = (jL <=? j) && (j <? jL + 10).
Proof.
  intros Hj HjL. unfold still_correlated, u32.
  destruct (Z_le_gt_dec jL j) as [H|H].
  - rewrite Z.mod_small by lia.
    replace (jL <=? j) with true by (symmetry; apply Z.leb_le; lia). cbn [andb].
    destruct (Z.ltb_spec (j - jL) 10), (Z.ltb_spec j (jL + 10)); try reflexivity; lia.
  - replace (jL <=? j) with false by (symmetry; apply Z.leb_gt; lia). cbn [andb].
    replace ((j - jL) mod 4294967296) with (j - jL + 4294967296).
    + apply Z.ltb_ge. lia.
    + symmetry. rewrite <- (Z.mod_small (j - jL + 4294967296) 4294967296) by lia.
      rewrite <- (Z_mod_plus_full (j - jL) 1 4294967296). f_equal; lia.
Qed.

Section Order.
Context {T : Type} (Ops : NumOps T) (OL : OrdLaws Ops).

Definition lt (a b : T) : Prop := nltb Ops a b = true.
Definition le (a b : T) : Prop := nltb Ops b a = false.
Definition eqv (a b : T) : Prop := neqb Ops a b = true.

Lemma lt_irrefl a : ~ lt a a.
Proof. unfold lt. rewrite (ol_irrefl _ OL). discriminate. Qed.
Lemma lt_trans a b c : lt a b -> lt b c -> lt a c.
Proof. apply (ol_trans _ OL). Qed.
Lemma lt_le a b : lt a b -> le a b.
Proof.
  unfold le. intros H. destruct (nltb Ops b a) eqn:E; [|reflexivity].
  exfalso. apply (lt_irrefl a). eapply lt_trans; eauto.
Qed.
Lemma le_refl a : le a a.
Proof. apply (ol_irrefl _ OL). Qed.
Lemma not_lt_le a b : nltb Ops a b = false -> le b a.
Proof. auto. Qed.
Lemma le_lt_trans a b c : le a b -> lt b c -> lt a c.
Proof.
  unfold le. intros Hab Hbc. destruct (ol_total _ OL a c) as [H|[H|H]]; auto; exfalso.
  - (* a == c: b < c = a contradicts a <= b *)
    rewrite (ol_eq_lt_r _ OL a c b H) in Hab. unfold lt in Hbc. congruence.
  - assert (lt b a) by (eapply lt_trans; eauto). unfold lt in *. congruence.
Qed.
Lemma lt_le_trans a b c : lt a b -> le b c -> lt a c.
Proof.
  unfold le. intros Hab Hbc. destruct (ol_total _ OL a c) as [H|[H|H]]; auto; exfalso.
  - rewrite <- (ol_eq_lt_l _ OL a c b H) in Hbc. unfold lt in Hab. congruence.
  - assert (lt c b) by (eapply lt_trans; eauto). unfold lt in *. congruence.
Qed.
Lemma le_trans a b c : le a b -> le b c -> le a c.
Proof.
  intros Hab Hbc. unfold le. destruct (nltb Ops c a) eqn:E; [|reflexivity].
  exfalso. assert (lt c b) by (eapply lt_le_trans; eauto). unfold le, lt in *. congruence.
Qed.
Lemma eqv_le a b : eqv a b -> le a b /\ le b a.
Proof. intros H. apply (ol_eq _ OL) in H. unfold le. tauto. Qed.
Lemma le_antisym a b : le a b -> le b a -> eqv a b.
Proof. intros H1 H2. apply (ol_eq _ OL). unfold le in *. tauto. Qed.
Lemma le_neq_lt a b : le a b -> neqb Ops a b = false -> lt a b.
Proof.
  intros Hle Hne. destruct (ol_total _ OL a b) as [H|[H|H]]; auto.
  - congruence.
  - unfold le in Hle. congruence.
Qed.
(** the C++ comparisons in terms of [lt] *)
Lemma ngeb_spec x y : ngeb Ops x y = negb (nltb Ops x y).
Proof. unfold ngeb. apply (ol_le _ OL). Qed.
Lemma ngtb_spec x y : ngtb Ops x y = nltb Ops y x.
Proof. reflexivity. Qed.
End Order.

Section Search.
Context {T : Type} (Ops : NumOps T) (OL : OrdLaws Ops).
Variable N : Z.
Variable xv : Z -> T.

Notation lt := (lt Ops).
Notation le := (le Ops).
Notation eqv := (eqv Ops).

(** the table is strictly increasing (what the constructor checks) *)
Definition increasing : Prop := forall i j, 0 <= i -> i < j -> j < N -> lt (xv i) (xv j).
(** table sizes for which the C++ int arithmetic of the searches cannot overflow *)
Definition size_ok : Prop := 2 <= N <= 1073741824.

Hypothesis Hinc : increasing.
Hypothesis HN : size_ok.

Lemma getx_ok i : 0 <= i < N -> getx N xv i = Ok (xv i).
Proof.
  intros H. unfold getx.
  replace (0 <=? i) with true by (symmetry; apply Z.leb_le; lia).
  replace (i <? N) with true by (symmetry; apply Z.ltb_lt; lia). reflexivity.
Qed.

Lemma inc_le i j : 0 <= i -> i <= j -> j < N -> le (xv i) (xv j).
Proof.
  intros H0 Hij HjN. destruct (Z.eq_dec i j) as [->|]; [apply le_refl; auto|].
  apply lt_le; auto. apply Hinc; lia.
Qed.

(** x lies in the closed segment j *)
Definition seg (x : T) (j : Z) : Prop := 0 <= j <= N - 2 /\ le (xv j) x /\ le x (xv (j + 1)).
(** j is THE segment of x: xs[j] <= x < xs[j+1], or the last segment when x is the upper end *)
Definition canon (x : T) (j : Z) : Prop :=
  0 <= j <= N - 2 /\ le (xv j) x /\ (lt x (xv (j + 1)) \/ (j = N - 2 /\ le x (xv (N - 1)))).

Lemma canon_seg x j : canon x j -> seg x j.
Proof.
  intros (Hj & Hlo & [H|[-> H]]); repeat split; auto; try lia.
  - apply lt_le; auto.
  - replace (N - 2 + 1) with (N - 1) by lia. exact H.
Qed.

Lemma canon_unique x i j : canon x i -> canon x j -> i = j.
Proof.
  assert (A : forall i j, canon x i -> canon x j -> i < j -> False).
  { intros a b (Ha & Halo & Hahi) (Hb & Hblo & _) Hab.
    destruct Hahi as [H|[-> _]]; [|lia].
    (* x < xv (a+1) <= xv b <= x *)
    apply (lt_irrefl Ops OL x). apply (lt_le_trans Ops OL x (xv (a + 1)) x H).
    apply (le_trans Ops OL _ (xv b)); auto. apply inc_le; lia. }
  intros Hi Hj. destruct (Z.lt_trichotomy i j) as [L|[L|L]]; auto; exfalso; eauto.
Qed.

(** ** Bisection *)
Lemma bisection_spec : forall fuel x jl jr,
  0 <= jl -> jl < jr -> jr <= N - 1 -> Z.of_nat fuel >= jr - jl ->
  le (xv jl) x -> le x (xv jr) ->
  exists j, bisection Ops N xv fuel x jl jr = Ok j /\ jl <= j < jr /\
            le (xv j) x /\ le x (xv (j + 1)) /\ (lt x (xv (j + 1)) \/ j + 1 = jr).
Proof.
  destruct HN as [HN2 HNmax].
  induction fuel as [|f IH]; intros x jl jr H0 Hlr HrN Hfuel Hlo Hhi.
  - assert (jr = jl + 1) by lia. subst jr. cbn [bisection].
    replace (1 <? jl + 1 - jl) with false by (symmetry; apply Z.ltb_ge; lia).
    exists jl. rewrite u32_id by lia. repeat split; auto; lia.
  - cbn [bisection]. destruct (1 <? jr - jl) eqn:E.
    + apply Z.ltb_lt in E. rewrite Z.shiftr_div_pow2 by lia. change (2 ^ 1) with 2.
      set (jm := (jr + jl) / 2).
      assert (Hjm : jl < jm < jr) by (unfold jm; Z.div_mod_to_equations; lia).
      rewrite getx_ok by lia. cbn [rbind]. rewrite (ngeb_spec Ops OL).
      destruct (nltb Ops x (xv jm)) eqn:Em; cbn [negb].
      * destruct (IH x jl jm) as (j & Hb & Hj & Hjlo & Hjhi & Hc); auto; try lia.
        { apply lt_le; auto. }
        exists j. repeat split; auto; try lia.
        destruct Hc as [Hc|Hc]; [left; exact Hc|]. left. rewrite Hc. exact Em.
      * destruct (IH x jm jr) as (j & Hb & Hj & Hjlo & Hjhi & Hc); auto; try lia.
        exists j. repeat split; auto; lia.
    + apply Z.ltb_ge in E. assert (jr = jl + 1) by lia. subst jr.
      exists jl. rewrite u32_id by lia. repeat split; auto; lia.
Qed.

Lemma bisect_spec x jl jr :
  0 <= jl -> jl < jr -> jr <= N - 1 -> le (xv jl) x -> le x (xv jr) ->
  exists j, bisect Ops N xv x jl jr = Ok j /\ jl <= j < jr /\
            le (xv j) x /\ le x (xv (j + 1)) /\ (lt x (xv (j + 1)) \/ j + 1 = jr).
Proof. intros. unfold bisect. apply bisection_spec; auto. lia. Qed.

(** ** Hunt *)
Lemma hunt_up_spec : forall fuel x jd ju dj,
  0 <= jd -> jd < ju -> ju <= N - 1 -> 1 <= dj <= 2 * N -> Z.of_nat fuel >= N - ju ->
  lt (xv jd) x -> le x (xv (N - 1)) ->
  exists a b, hunt_up Ops N xv fuel x jd ju dj = Ok (a, b) /\
              0 <= a /\ a < b /\ b <= N - 1 /\ lt (xv a) x /\ le x (xv b).
Proof.
  destruct HN as [HN2 HNmax].
  induction fuel as [|f IH]; intros x jd ju dj H0 Hlt HuN Hdj Hf Hlo Hdom.
  - (* ju = N-1: the loop condition is false *)
    assert (ju = N - 1) by lia. subst ju. cbn [hunt_up]. rewrite getx_ok by lia. cbn [rbind].
    rewrite ngtb_spec. replace (nltb Ops (xv (N - 1)) x) with false by (symmetry; exact Hdom).
    exists jd, (N - 1). repeat split; auto; lia.
  - cbn [hunt_up]. rewrite getx_ok by lia. cbn [rbind]. rewrite ngtb_spec.
    destruct (nltb Ops (xv ju) x) eqn:E.
    + assert (HjuN : ju < N - 1).
      { destruct (Z.eq_dec ju (N - 1)) as [->|]; [|lia]. unfold C09_Proofs.le in Hdom. congruence. }
      rewrite (u32_id dj) by lia. rewrite (u32_id (ju + dj)) by lia.
      rewrite (u32_id (N - 1)) by lia. rewrite (i32_id ju) by lia.
      destruct (N - 1 <? ju + dj) eqn:E2.
      * apply Z.ltb_lt in E2. exists ju, (N - 1). repeat split; auto; lia.
      * apply Z.ltb_ge in E2. apply IH; auto; lia.
    + exists jd, ju. repeat split; auto; lia.
Qed.

Lemma hunt_down_spec : forall fuel x jd ju dj,
  0 <= jd -> jd < ju -> ju <= N - 1 -> 1 <= dj -> Z.of_nat fuel >= jd + 1 ->
  lt x (xv ju) -> le (xv 0) x ->
  exists a b, hunt_down Ops N xv fuel x jd ju dj = Ok (a, b) /\
              0 <= a /\ a < b /\ b <= N - 1 /\ le (xv a) x /\ lt x (xv b).
Proof.
  destruct HN as [HN2 HNmax].
  induction fuel as [|f IH]; intros x jd ju dj H0 Hlt HuN Hdj Hf Hhi Hdom.
  - lia.
  - cbn [hunt_down]. rewrite getx_ok by lia. cbn [rbind].
    destruct (nltb Ops x (xv jd)) eqn:E.
    + assert (Hjd : 0 < jd).
      { destruct (Z.eq_dec jd 0) as [->|]; [|lia]. unfold C09_Proofs.le in Hdom. congruence. }
      rewrite (u32_id jd) by lia.
      destruct (jd - dj <? 0) eqn:E2.
      * apply Z.ltb_lt in E2. exists 0, jd. repeat split; auto; lia.
      * apply Z.ltb_ge in E2. apply IH; auto; lia.
    + exists jd, ju. repeat split; auto; lia.
Qed.

Lemma hunt_finish_spec x a b :
  0 <= a -> a < b -> b <= N - 1 -> le (xv a) x -> le x (xv b) ->
  exists j, hunt_finish Ops N xv x (a, b) = Ok j /\ seg x j.
Proof.
  destruct HN as [HN2 HNmax].
  intros Ha Hab Hb Hlo Hhi. unfold hunt_finish.
  rewrite (u32_id a) by lia. rewrite (u32_id (b - a)) by lia. rewrite (i32_id b) by lia.
  destruct (1 <? b - a) eqn:E.
  - destruct (bisect_spec x a b) as (j & Hbis & Hj & Hjlo & Hjhi & _); auto.
    rewrite Hbis. cbn [rbind]. rewrite (i32_id j) by lia. rewrite (u32_id j) by lia.
    exists j. split; auto. repeat split; auto; lia.
  - apply Z.ltb_ge in E. assert (b = a + 1) by lia. subst b.
    exists a. split; auto. repeat split; auto; lia.
Qed.

(** Hunt from any cached index in range: no out-of-bounds read, no fuel exhaustion, result in a
    closed segment containing x *)
Theorem hunt_spec x jL :
  0 <= jL <= N - 2 -> le (xv 0) x -> le x (xv (N - 1)) ->
  exists j, hunt Ops N xv x jL = Ok j /\ seg x j.
Proof.
  destruct HN as [HN2 HNmax].
  intros HjL Hlo Hhi. unfold hunt. rewrite getx_ok by lia. cbn [rbind]. rewrite ngtb_spec.
  destruct (nltb Ops (xv jL) x) eqn:E1.
  - rewrite (i32_id jL) by lia. rewrite (u32_id (jL + 1)) by lia.
    destruct (hunt_up_spec (Z.to_nat N) x jL (jL + 1) 1) as (a & b & Hh & Ha & Hab & Hb & Hax & Hxb);
      auto; try lia.
    rewrite Hh. cbn [rbind]. apply hunt_finish_spec; auto. apply lt_le; auto.
  - destruct (nltb Ops x (xv jL)) eqn:E2.
    + assert (H1 : 1 <= jL).
      { destruct (Z.eq_dec jL 0) as [->|]; [|lia]. unfold C09_Proofs.le in Hlo. congruence. }
      rewrite (u32_id 1) by lia. rewrite (u32_id (jL - 1)) by lia. rewrite (i32_id (jL - 1)) by lia.
      destruct (hunt_down_spec (Z.to_nat N) x (jL - 1) jL 1) as (a & b & Hh & Ha & Hab & Hb & Hax & Hxb);
        auto; try lia.
      rewrite Hh. cbn [rbind]. apply hunt_finish_spec; auto. apply lt_le; auto.
    + (* x == x_values[jLast] *)
      exists jL. split; auto. repeat split; auto; try lia.
      eapply le_trans; eauto. apply inc_le; lia.
Qed.

(** Bisection over the whole table *)
Theorem bisect_whole_spec x :
  le (xv 0) x -> le x (xv (N - 1)) ->
  exists j, bisect Ops N xv x 0 (i32 (u32 (N - 1))) = Ok j /\ canon x j.
Proof.
  destruct HN as [HN2 HNmax].
  intros Hlo Hhi. rewrite (u32_id (N - 1)) by lia. rewrite (i32_id (N - 1)) by lia.
  destruct (bisect_spec x 0 (N - 1)) as (j & Hb & Hj & Hjlo & Hjhi & Hc); auto; try lia.
  exists j. split; auto. split; [lia|]. split; auto.
  destruct Hc as [Hc|Hc]; [left; auto|right]. split; [lia|]. auto.
Qed.
End Search.

(** ** Locate, the queries and histories *)
Section Locate.
Context {T : Type} (Ops : NumOps T) (OL : OrdLaws Ops).
Variable N : Z.
Variable xv : Z -> T.
Hypothesis Hinc : increasing Ops N xv.
Hypothesis HN : size_ok N.

Notation lt := (lt Ops).
Notation le := (le Ops).
Notation seg := (seg Ops N xv).
Notation canon := (canon Ops N xv).

(** the invariant of the cache: the cached index is a valid segment index *)
Definition inv (st : state T) : Prop := 0 <= jLast st <= N - 2.
Definition in_domain (x : T) : Prop := le (xv 0) x /\ le x (xv (N - 1)).

Lemma inv_fresh p : inv (fresh p).
Proof. destruct HN. unfold inv, fresh; cbn. lia. Qed.

(** the canonicalisation step turns any closed segment containing x into THE segment of x *)
Lemma canonicalise_spec x j : seg x j ->
  exists j', (if j <? u32 (N - 2)
              then rbind (getx N xv (j + 1)) (fun xn => if neqb Ops x xn then Ok (u32 (j + 1)) else Ok j)
              else Ok j) = Ok j' /\ canon x j'.
Proof.
  destruct HN as [HN2 HNmax]. intros (Hj & Hlo & Hhi).
  rewrite (u32_id (N - 2)) by lia.
  destruct (Z.ltb_spec j (N - 2)) as [Hlt|Hge].
  - rewrite (getx_ok N xv) by lia. cbn [rbind].
    destruct (neqb Ops x (xv (j + 1))) eqn:E.
    + rewrite (u32_id (j + 1)) by lia. exists (j + 1). split; auto.
      destruct (eqv_le Ops OL _ _ E) as [E1 E2].
      split; [lia|]. split; auto. left.
      apply (le_lt_trans Ops OL x (xv (j + 1))); auto. apply Hinc; lia.
    + exists j. split; auto. split; [lia|]. split; auto. left. apply le_neq_lt; auto.
  - exists j. split; auto. assert (j = N - 2) by lia. subst j.
    split; [lia|]. split; auto. right. split; auto.
    replace (N - 1) with (N - 2 + 1) by lia. exact Hhi.
Qed.

Lemma locate_inside_spec st x : inv st -> in_domain x ->
  exists j, locate_inside Ops N xv st x = Ok j /\ canon x j.
Proof.
  intros Hinv [Hlo Hhi]. unfold locate_inside.
  assert (Hs : exists j, (if correlated st then hunt Ops N xv x (jLast st)
                          else bisect Ops N xv x 0 (i32 (u32 (N - 1)))) = Ok j /\ seg x j).
  { destruct (correlated st).
    - apply hunt_spec; auto.
    - destruct (bisect_whole_spec Ops OL N xv HN x Hlo Hhi) as (j & Hb & Hc).
      exists j. split; auto. apply canon_seg; auto. }
  destruct Hs as (j & Hs & Hseg). rewrite Hs. cbn [rbind].
  apply canonicalise_spec; auto.
Qed.

Lemma locate_outside_spec x d0 d1 :
  locate_outside Ops N xv x d0 d1 = Ok 0 \/ locate_outside Ops N xv x d0 d1 = Ok (N - 2) \/
  locate_outside Ops N xv x d0 d1 = Exit.
Proof.
  destruct HN as [HN2 HNmax]. unfold locate_outside.
  rewrite !(getx_ok N xv) by lia. cbn [rbind]. rewrite (u32_id (N - 2)) by lia.
  destruct (nltb Ops _ _); auto. destruct (nltb Ops _ _); auto.
Qed.

Lemma domain_test x : (nltb Ops x (xv 0) || ngtb Ops x (xv (N - 1))) = false <-> in_domain x.
Proof.
  unfold in_domain, C09_Proofs.le. rewrite ngtb_spec, orb_false_iff. tauto.
Qed.

(** Locate's index: never OOB, never out of fuel; in the domain THE segment of x; the same for
    every state of the cache.  A NaN argument ([nisnan]) ends the process before anything is read. *)
Lemma locate_index_nan (st : state T) x : nisnan Ops x = true -> locate_index Ops N xv st x = Exit.
Proof. intros H. unfold locate_index. rewrite H. reflexivity. Qed.

Lemma locate_index_spec st x : inv st ->
  (exists j, locate_index Ops N xv st x = Ok j /\ 0 <= j <= N - 2 /\ (in_domain x -> canon x j) /\
             nisnan Ops x = false) \/
  (locate_index Ops N xv st x = Exit /\ (nisnan Ops x = true \/ ~ in_domain x)).
Proof.
  destruct HN as [HN2 HNmax]. intros Hinv. unfold locate_index.
  destruct (nisnan Ops x) eqn:En; [right; auto|].
  rewrite !(getx_ok N xv) by lia. cbn [rbind].
  destruct (nltb Ops x (xv 0) || ngtb Ops x (xv (N - 1))) eqn:E.
  - assert (Hout : ~ in_domain x) by (rewrite <- domain_test; congruence).
    destruct (locate_outside_spec x (xv 0) (xv (N - 1))) as [H|[H|H]]; rewrite H.
    + left. exists 0. split; auto. split; [lia|]. split; [tauto|reflexivity].
    + left. exists (N - 2). split; auto. split; [lia|]. split; [tauto|reflexivity].
    + right. auto.
  - apply domain_test in E. destruct (locate_inside_spec st x Hinv E) as (j & Hl & Hc).
    left. exists j. split; auto. split; [apply Hc|]. split; auto.
Qed.

Theorem locate_index_indep st1 st2 x : inv st1 -> inv st2 ->
  locate_index Ops N xv st1 x = locate_index Ops N xv st2 x.
Proof.
  destruct HN as [HN2 HNmax]. intros H1 H2. unfold locate_index.
  destruct (nisnan Ops x); [reflexivity|].
  rewrite !(getx_ok N xv) by lia. cbn [rbind].
  destruct (nltb Ops x (xv 0) || ngtb Ops x (xv (N - 1))) eqn:E; [reflexivity|].
  apply domain_test in E.
  destruct (locate_inside_spec st1 x H1 E) as (j1 & Hl1 & Hc1).
  destruct (locate_inside_spec st2 x H2 E) as (j2 & Hl2 & Hc2).
  rewrite Hl1, Hl2. f_equal. eapply canon_unique; eauto.
Qed.

(** two objects over the same table are similar when both caches are valid and the prefactors agree *)
Definition sim (s1 s2 : state T) : Prop := inv s1 /\ inv s2 /\ prefactor s1 = prefactor s2.

(** two outcomes agree: same result on similar successor objects with prefactor p, or both exit *)
Definition agree {A : Type} (p : T) (r1 r2 : res (state T * A)) : Prop :=
  (exists s1 s2 a, r1 = Ok (s1, a) /\ r2 = Ok (s2, a) /\ sim s1 s2 /\ prefactor s1 = p) \/
  (r1 = Exit /\ r2 = Exit).

Lemma agree_bind {A B : Type} p (r1 r2 : res (state T * A)) (f : state T * A -> res (state T * B)) :
  agree p r1 r2 ->
  (forall s1 s2 a, sim s1 s2 -> prefactor s1 = p -> agree p (f (s1, a)) (f (s2, a))) ->
  agree p (rbind r1 f) (rbind r2 f).
Proof.
  intros [(s1 & s2 & a & -> & -> & Hs & Hp)|[-> ->]] Hf; cbn [rbind].
  - apply Hf; auto.
  - right; auto.
Qed.

Lemma agree_ret {A : Type} s1 s2 (a : A) : sim s1 s2 -> agree (prefactor s1) (Ok (s1, a)) (Ok (s2, a)).
Proof. intros H. left. exists s1, s2, a. auto. Qed.

Lemma locate_sim s1 s2 x : sim s1 s2 ->
  agree (prefactor s1) (locate Ops N xv s1 x) (locate Ops N xv s2 x).
Proof.
  intros (H1 & H2 & Hp). unfold locate.
  rewrite (locate_index_indep s1 s2 x H1 H2).
  destruct (locate_index_spec s2 x H2) as [(j & Hl & Hj & _ & _)|[Hl _]]; rewrite Hl; cbn [rbind].
  - left. do 3 eexists. split; [reflexivity|]. split; [reflexivity|].
    split; [|reflexivity]. unfold sim, inv; cbn. auto.
  - right; auto.
Qed.

(** what Locate returns and leaves behind *)
Lemma locate_result st x s j : inv st -> locate Ops N xv st x = Ok (s, j) ->
  jLast s = j /\ prefactor s = prefactor st /\ 0 <= j <= N - 2 /\ (in_domain x -> canon x j) /\
  correlated s = ((jLast st <=? j) && (j <? jLast st + 10)).
Proof.
  destruct HN as [HN2 HNmax]. intros Hinv. unfold locate.
  destruct (locate_index_spec st x Hinv) as [(j' & Hl & Hj & Hc & _)|[Hl _]]; rewrite Hl; cbn [rbind]; [|discriminate].
  intros E. injection E as <- <-. cbn.
  split; [reflexivity|]. split; [reflexivity|]. split; [lia|]. split; [exact Hc|].
  unfold inv in Hinv. apply still_correlated_spec; lia.
Qed.

Section Queries.
Variable seg_eval : Z -> T -> T.
Variable seg_deriv : Z -> T -> Z -> T.
Variable integ_eval : Z -> Z -> T -> T -> T -> T.
Variable ext_eval : bool -> T -> T -> Z -> Z -> T -> T -> T -> T.
Variable glob_eval : bool -> T -> T.

Notation interpolate := (interpolate Ops N xv seg_eval).
Notation derivative := (derivative Ops N xv seg_eval seg_deriv).
Notation integrate := (integrate Ops N xv integ_eval).
Notation local_ext := (local_ext Ops N xv seg_eval ext_eval).
Notation step := (step Ops N xv seg_eval seg_deriv integ_eval ext_eval glob_eval).
Notation run := (run Ops N xv seg_eval seg_deriv integ_eval ext_eval glob_eval).

Lemma interpolate_sim s1 s2 x : sim s1 s2 ->
  agree (prefactor s1) (interpolate s1 x) (interpolate s2 x).
Proof.
  intros Hs. unfold C09_Model.interpolate. apply agree_bind; [apply locate_sim; auto|].
  intros t1 t2 j Ht Hp. rewrite <- Hp. destruct Ht as (? & ? & Hpp). rewrite <- Hpp.
  apply agree_ret. unfold sim; auto.
Qed.

Lemma derivative_sim s1 s2 x k : sim s1 s2 ->
  agree (prefactor s1) (derivative s1 x k) (derivative s2 x k).
Proof.
  intros Hs. unfold C09_Model.derivative. apply agree_bind; [apply locate_sim; auto|].
  intros t1 t2 j Ht Hp. destruct (k =? 0).
  - rewrite <- Hp. apply agree_bind; [apply interpolate_sim; auto|].
    intros u1 u2 [j2 v] Hu Hq. rewrite <- Hq. apply agree_ret; auto.
  - rewrite <- Hp. pose proof Ht as (? & ? & Hpp). rewrite <- Hpp.
    destruct (k <=? 3); apply agree_ret; auto.
Qed.

Lemma integrate_sim s1 s2 x1 x2 : sim s1 s2 ->
  agree (prefactor s1) (integrate s1 x1 x2) (integrate s2 x1 x2).
Proof.
  intros Hs. unfold C09_Model.integrate. cbv zeta.
  apply agree_bind; [apply locate_sim; auto|].
  intros t1 t2 i1 Ht Hp. rewrite <- Hp.
  apply agree_bind; [apply locate_sim; auto|].
  intros u1 u2 i2 Hu Hq. rewrite <- Hq. pose proof Hu as (? & ? & Hpp). rewrite <- Hpp.
  apply agree_ret; auto.
Qed.

Lemma local_ext_sim mx s1 s2 x1 x2 : sim s1 s2 ->
  agree (prefactor s1) (local_ext mx s1 x1 x2) (local_ext mx s2 x1 x2).
Proof.
  intros Hs. unfold C09_Model.local_ext. destruct (nltb Ops x2 x1); [right; auto|].
  apply agree_bind; [apply interpolate_sim; auto|].
  intros t1 t2 [ja fl] Ht Hp. rewrite <- Hp.
  apply agree_bind; [apply interpolate_sim; auto|].
  intros u1 u2 [jb fr] Hu Hq. rewrite <- Hq.
  apply agree_bind; [apply locate_sim; auto|].
  intros v1 v2 i1 Hv Hr. rewrite <- Hr.
  apply agree_bind; [apply locate_sim; auto|].
  intros w1 w2 i2 Hw Hz. rewrite <- Hz. pose proof Hw as (? & ? & Hpp). rewrite <- Hpp.
  apply agree_ret; auto.
Qed.

Definition proper_out (o : out T) : Prop := o <> @OOOB T /\ o <> @OFuel T.

Lemma wrap_agree {A : Type} (g : state T * A -> res (state T * out T)) (f : A -> out T) s1 s2
      (r1 r2 : res (state T * A)) :
  (forall s a, g (s, a) = Ok (s, f a)) -> (forall a, proper_out (f a)) ->
  sim s1 s2 -> agree (prefactor s1) r1 r2 ->
  snd (wrap s1 (rbind r1 g)) = snd (wrap s2 (rbind r2 g)) /\
  sim (fst (wrap s1 (rbind r1 g))) (fst (wrap s2 (rbind r2 g))) /\
  prefactor (fst (wrap s1 (rbind r1 g))) = prefactor s1 /\
  proper_out (snd (wrap s1 (rbind r1 g))).
Proof.
  intros Hg Hf Hs [(t1 & t2 & a & -> & -> & Ht & Hp)|[-> ->]]; cbn [rbind].
  - rewrite !Hg. cbn. auto.
  - cbn. split; [reflexivity|]. split; [exact Hs|]. split; [reflexivity|]. split; discriminate.
Qed.

(** one operation on two similar objects: same output, similar successors; the prefactor changes
    exactly as [prefactor_after] says; the output is never OOB / out of fuel *)
Theorem step_sim s1 s2 q : sim s1 s2 ->
  snd (step s1 q) = snd (step s2 q) /\ sim (fst (step s1 q)) (fst (step s2 q)) /\
  prefactor (fst (step s1 q)) = prefactor_after Ops [q] (prefactor s1) /\
  proper_out (snd (step s1 q)).
Proof.
  intros Hs. destruct q; cbn [C09_Model.step prefactor_after fold_left].
  - eapply wrap_agree with (f := fun j => OIndex j);
      [intros; reflexivity|intros; split; discriminate|auto|apply locate_sim; auto].
  - eapply wrap_agree with (f := fun p : Z * T => let '(j, v) := p in OValue [j] v);
      [intros s [j v]; reflexivity|intros [j v]; split; discriminate|auto|apply interpolate_sim; auto].
  - eapply wrap_agree with (f := fun p : list Z * T => let '(l, v) := p in OValue l v);
      [intros s [l v]; reflexivity|intros [l v]; split; discriminate|auto|apply derivative_sim; auto].
  - eapply wrap_agree with (f := fun p : list Z * T => let '(l, v) := p in OValue l v);
      [intros s [l v]; reflexivity|intros [l v]; split; discriminate|auto|apply integrate_sim; auto].
  - eapply wrap_agree with (f := fun p : list Z * T => let '(l, v) := p in OValue l v);
      [intros s [l v]; reflexivity|intros [l v]; split; discriminate|auto|apply local_ext_sim; auto].
  - eapply wrap_agree with (f := fun p : list Z * T => let '(l, v) := p in OValue l v);
      [intros s [l v]; reflexivity|intros [l v]; split; discriminate|auto|apply local_ext_sim; auto].
  - destruct Hs as (Hi1 & Hi2 & Hp). cbn. rewrite Hp.
    split; [reflexivity|]. split; [split; [|split]; assumption|]. split; [reflexivity|split; discriminate].
  - destruct Hs as (Hi1 & Hi2 & Hp). cbn. rewrite Hp.
    split; [reflexivity|]. split; [split; [|split]; assumption|]. split; [reflexivity|split; discriminate].
  - destruct Hs as (Hi1 & Hi2 & Hp). cbn.
    split; [reflexivity|]. split; [split; [|split]; [exact Hi1|exact Hi2|reflexivity]|].
    split; [reflexivity|split; discriminate].
  - destruct Hs as (Hi1 & Hi2 & Hp). cbn. rewrite Hp.
    split; [reflexivity|]. split; [split; [|split]; [exact Hi1|exact Hi2|reflexivity]|].
    split; [reflexivity|split; discriminate].
  - destruct Hs as (Hi1 & Hi2 & Hp). cbn.
    split; [reflexivity|]. split; [split; [|split]; assumption|]. split; [reflexivity|split; discriminate].
Qed.

Lemma sim_refl s : inv s -> sim s s.
Proof. unfold sim; auto. Qed.

(** the invariant is preserved by every operation, hence by every history *)
Lemma inv_step st q : inv st -> inv (fst (step st q)).
Proof. intros H. destruct (step_sim st st q (sim_refl st H)) as (_ & (Hi & _) & _ & _). exact Hi. Qed.

Lemma run_cons q h st : run (q :: h) st = run h (fst (step st q)).
Proof. reflexivity. Qed.
Lemma prefactor_after_cons q h p :
  prefactor_after Ops (q :: h) p = prefactor_after Ops h (prefactor_after Ops [q] p).
Proof. reflexivity. Qed.

Lemma inv_run h : forall st, inv st -> inv (run h st).
Proof.
  induction h as [|q h IH]; intros st H; [exact H|].
  rewrite run_cons. apply IH. apply inv_step; auto.
Qed.

Lemma prefactor_run h : forall st, inv st ->
  prefactor (run h st) = prefactor_after Ops h (prefactor st).
Proof.
  induction h as [|q h IH]; intros st H; [reflexivity|].
  rewrite run_cons, prefactor_after_cons. rewrite IH by (apply inv_step; auto).
  destruct (step_sim st st q (sim_refl st H)) as (_ & _ & Hp & _). rewrite Hp. reflexivity.
Qed.

(** the history theorem: after any history, any operation answers as on a fresh object that has
    the same prefactor *)
Theorem history_free h q :
  snd (step (run h (init Ops)) q) =
  snd (step (fresh (prefactor_after Ops h (n1 Ops))) q).
Proof.
  assert (Hi : inv (init Ops)) by apply inv_fresh.
  apply step_sim. split; [apply inv_run; auto|]. split; [apply inv_fresh|].
  rewrite prefactor_run by auto. reflexivity.
Qed.

(** two arbitrary histories with the same prefactor calls are indistinguishable, now and later *)
Theorem histories_indistinguishable h1 h2 rest q :
  prefactor_after Ops h1 (n1 Ops) = prefactor_after Ops h2 (n1 Ops) ->
  snd (step (run rest (run h1 (init Ops))) q) = snd (step (run rest (run h2 (init Ops))) q).
Proof.
  intros Hp. assert (Hi : inv (init Ops)) by apply inv_fresh.
  assert (Hs : sim (run h1 (init Ops)) (run h2 (init Ops))).
  { split; [apply inv_run; auto|]. split; [apply inv_run; auto|]. rewrite !prefactor_run by auto. exact Hp. }
  revert Hs. generalize (run h1 (init Ops)) (run h2 (init Ops)). clear Hp.
  induction rest as [|o rest IH]; intros a b Hs.
  - apply step_sim; auto.
  - rewrite !run_cons. apply IH. apply step_sim; auto.
Qed.

(** no operation of any history reads outside the table or exhausts the fuel of a search *)
(** the answers to a whole CONTINUATION of calls (each one issued on the object the previous ones left behind) *)
Fixpoint trace (ops : list (op T)) (st : state T) : list (out T) :=
  match ops with [] => [] | q :: r => snd (step st q) :: trace r (fst (step st q)) end.
Lemma trace_sim ops : forall s1 s2, sim s1 s2 -> trace ops s1 = trace ops s2.
Proof.
  induction ops as [|q r IH]; intros s1 s2 Hs; [reflexivity|]. cbn [trace].
  destruct (step_sim s1 s2 q Hs) as (A & B & _). rewrite A. f_equal. apply IH. exact B.
Qed.
Theorem continuation_free h rest :
  trace rest (run h (init Ops)) = trace rest (fresh (prefactor_after Ops h (n1 Ops))).
Proof.
  assert (Hi : inv (init Ops)) by apply inv_fresh.
  apply trace_sim. split; [apply inv_run; auto|]. split; [apply inv_fresh|].
  rewrite prefactor_run by auto. reflexivity.
Qed.

Theorem no_oob_no_fuel st q : inv st -> snd (step st q) <> @OOOB T /\ snd (step st q) <> @OFuel T.
Proof. intros H. apply (step_sim st st q (sim_refl st H)). Qed.
End Queries.
End Locate.

(** ** What a query returns after a history, made explicit for Interpolate and Derivative *)
Section Values.
Context {T : Type} (Ops : NumOps T) (OL : OrdLaws Ops).
Variable N : Z.
Variable xv : Z -> T.
Hypothesis Hinc : increasing Ops N xv.
Hypothesis HN : size_ok N.
Variable seg_eval : Z -> T -> T.
Variable seg_deriv : Z -> T -> Z -> T.
Variable integ_eval : Z -> Z -> T -> T -> T -> T.
Variable ext_eval : bool -> T -> T -> Z -> Z -> T -> T -> T -> T.
Variable glob_eval : bool -> T -> T.
Notation step := (step Ops N xv seg_eval seg_deriv integ_eval ext_eval glob_eval).
Notation run := (run Ops N xv seg_eval seg_deriv integ_eval ext_eval glob_eval).

Lemma step_locate_fresh p x : nisnan Ops x = false -> in_domain Ops N xv x ->
  exists j, snd (step (fresh p) (OpLocate x)) = OIndex j /\ canon Ops N xv x j.
Proof.
  intros Hnn Hd. cbn [C09_Model.step]. unfold locate.
  destruct (locate_index_spec Ops OL N xv Hinc HN (fresh p) x (inv_fresh N HN p))
    as [(j & Hl & Hj & Hc & _)|[_ [Hn|Hn]]]; [|congruence|tauto].
  rewrite Hl. cbn. exists j. auto.
Qed.

Lemma step_interpolate_fresh p x : nisnan Ops x = false -> in_domain Ops N xv x ->
  exists j, snd (step (fresh p) (OpInterpolate x)) = OValue [j] (nmul Ops p (seg_eval j x)) /\
            canon Ops N xv x j.
Proof.
  destruct HN as [HN2 HNmax].
  intros Hnn Hd. cbn [C09_Model.step]. unfold interpolate, locate.
  destruct (locate_index_spec Ops OL N xv Hinc HN (fresh p) x (inv_fresh N HN p))
    as [(j & Hl & Hj & Hc & _)|[_ [Hn|Hn]]]; [|congruence|tauto].
  rewrite Hl. cbn. rewrite i32_id by lia. exists j. auto.
Qed.

Lemma step_derivative_fresh p x k : nisnan Ops x = false -> in_domain Ops N xv x -> 1 <= k <= 3 ->
  exists j, snd (step (fresh p) (OpDerivative x k)) = OValue [j] (nmul Ops p (seg_deriv j x k)) /\
            canon Ops N xv x j.
Proof.
  destruct HN as [HN2 HNmax].
  intros Hnn Hd Hk. cbn [C09_Model.step]. unfold derivative, locate.
  destruct (locate_index_spec Ops OL N xv Hinc HN (fresh p) x (inv_fresh N HN p))
    as [(j & Hl & Hj & Hc & _)|[_ [Hn|Hn]]]; [|congruence|tauto].
  rewrite Hl. cbn [rbind].
  replace (k =? 0) with false by (symmetry; apply Z.eqb_neq; lia).
  replace (k <=? 3) with true by (symmetry; apply Z.leb_le; lia).
  cbn. rewrite i32_id by lia. exists j. auto.
Qed.

(** after any history: Locate returns THE segment of x; Interpolate / Derivative return the
    prefactor left by the Set_Prefactor / Multiply calls times the value of that segment *)
Theorem locate_after_history h x : nisnan Ops x = false -> in_domain Ops N xv x ->
  exists j, snd (step (run h (init Ops)) (OpLocate x)) = OIndex j /\ canon Ops N xv x j.
Proof.
  intros Hnn Hd. rewrite (history_free Ops OL N xv Hinc HN). apply step_locate_fresh; auto.
Qed.

Theorem interpolate_after_history h x : nisnan Ops x = false -> in_domain Ops N xv x ->
  exists j, snd (step (run h (init Ops)) (OpInterpolate x)) =
              OValue [j] (nmul Ops (prefactor_after Ops h (n1 Ops)) (seg_eval j x)) /\
            canon Ops N xv x j.
Proof.
  intros Hnn Hd. rewrite (history_free Ops OL N xv Hinc HN). apply step_interpolate_fresh; auto.
Qed.

Theorem derivative_after_history h x k : nisnan Ops x = false -> in_domain Ops N xv x -> 1 <= k <= 3 ->
  exists j, snd (step (run h (init Ops)) (OpDerivative x k)) =
              OValue [j] (nmul Ops (prefactor_after Ops h (n1 Ops)) (seg_deriv j x k)) /\
            canon Ops N xv x j.
Proof.
  intros Hnn Hd Hk. rewrite (history_free Ops OL N xv Hinc HN). apply step_derivative_fresh; auto.
Qed.

(** the cache after a Locate: jLast is the returned index and the next call hunts iff
    jLast <= j < jLast + 10 (the unsigned wrap-around of j - jLast) *)
Theorem cache_after_locate h x :
  let st := run h (init Ops) in
  forall s j, step st (OpLocate x) = (s, OIndex j) ->
  jLast s = j /\ 0 <= j <= N - 2 /\ prefactor s = prefactor st /\
  correlated s = ((jLast st <=? j) && (j <? jLast st + 10)).
Proof.
  intros st s j. cbn [C09_Model.step].
  assert (Hi : inv N st) by (apply inv_run; auto; apply inv_fresh; auto).
  destruct (locate Ops N xv st x) as [[s' j']| | |] eqn:E; cbn; intros H; try discriminate.
  injection H as <- <-.
  destruct (locate_result Ops OL N xv Hinc HN st x s' j' Hi E) as (A & B & C & _ & D). auto.
Qed.
End Values.

(** ** The constructor's check gives [increasing] *)
Section Adjacent.
Context {T : Type} (Ops : NumOps T) (OL : OrdLaws Ops).
Variable N : Z.
Variable xv : Z -> T.
(** Interpolation::Interpolation exits when x_values[i] <= x_values[i-1] for some 1 <= i < N *)
Lemma increasing_of_adjacent :
  (forall i, 1 <= i < N -> nleb Ops (xv i) (xv (i - 1)) = false) -> increasing Ops N xv.
Proof.
  intros H i j Hi Hij HjN.
  assert (A : forall k, 1 <= k < N -> lt Ops (xv (k - 1)) (xv k)).
  { intros k Hk. specialize (H k Hk). rewrite (ol_le _ OL) in H. unfold lt.
    destruct (nltb Ops (xv (k - 1)) (xv k)); auto. }
  assert (B : forall n, (0 <= n)%Z -> forall j, j = i + 1 + n -> j < N -> lt Ops (xv i) (xv j)).
  { apply (natlike_ind (fun n => forall j, j = i + 1 + n -> j < N -> lt Ops (xv i) (xv j))).
    - intros j0 -> Hj0. replace i with (i + 1 + 0 - 1) at 1 by lia. apply A. lia.
    - intros n Hn IH j0 -> Hj0. apply (lt_trans Ops OL _ (xv (i + 1 + n))).
      + apply IH; auto. lia.
      + replace (i + 1 + n) with (i + 1 + Z.succ n - 1) at 1 by lia. apply A. lia. }
  apply (B (j - i - 1)); lia.
Qed.
End Adjacent.

(** ** Interpolation_2D *)
Section TwoD.
Context {T : Type} (Ops : NumOps T) (OL : OrdLaws Ops).
Variable Nx : Z. Variable xv : Z -> T.
Variable Ny : Z. Variable yv : Z -> T.
Variable fv : Z -> Z -> T.
Hypothesis Hincx : increasing Ops Nx xv.
Hypothesis Hincy : increasing Ops Ny yv.
Hypothesis HNx : size_ok Nx.
Hypothesis HNy : size_ok Ny.

Notation step2 := (step2 Ops Nx xv Ny yv fv).
Notation run2 := (run2 Ops Nx xv Ny yv fv).
Notation interpolate2 := (interpolate2 Ops Nx xv Ny yv fv).

Definition inv2 (st : state2 T) : Prop := inv Nx (sx st) /\ inv Ny (sy st).
Definition sim2 (a b : state2 T) : Prop := inv2 a /\ inv2 b /\ pf2 a = pf2 b.
Definition prefactor2_after (h : list (op2 T)) (p : T) : T :=
  fold_left (fun p o => match o with Op2SetPrefactor f => f | Op2Multiply f => nmul Ops p f | _ => p end) h p.

Lemma getf_ok i j : 0 <= i < Nx -> 0 <= j < Ny -> getf Nx Ny fv i j = Ok (fv i j).
Proof.
  intros Hi Hj. unfold getf.
  replace (0 <=? i) with true by (symmetry; apply Z.leb_le; lia).
  replace (i <? Nx) with true by (symmetry; apply Z.ltb_lt; lia).
  replace (0 <=? j) with true by (symmetry; apply Z.leb_le; lia).
  replace (j <? Ny) with true by (symmetry; apply Z.ltb_lt; lia). reflexivity.
Qed.

(** *** Global_Minimum / Global_Maximum of Interpolation_2D: the first smallest / largest entry of the whole table *)
Lemma zrange_spec n i : In i (zrange n) <-> 0 <= i < n.
Proof.
  unfold zrange. rewrite in_map_iff. split.
  - intros (k & <- & Hk). apply in_seq in Hk. lia.
  - intros H. exists (Z.to_nat i). split; [lia|]. apply in_seq. lia.
Qed.

Lemma min_from_spec : forall l cur,
  le Ops (min_from Ops cur l) cur /\ (forall x, In x l -> le Ops (min_from Ops cur l) x) /\
  (min_from Ops cur l = cur \/ In (min_from Ops cur l) l).
Proof.
  induction l as [|v r IH]; intros cur; cbn [min_from].
  - split; [apply le_refl; auto|]. split; [intros x []|left; reflexivity].
  - destruct (nltb Ops v cur) eqn:E.
    + destruct (IH v) as (H1 & H2 & H3). split; [|split].
      * apply (le_trans Ops OL _ v); auto. apply lt_le; auto.
      * intros x [<-|Hx]; auto.
      * right. destruct H3 as [->|H3]; [left; reflexivity|right; exact H3].
    + destruct (IH cur) as (H1 & H2 & H3). split; [exact H1|split].
      * intros x [<-|Hx]; auto. apply (le_trans Ops OL _ cur); auto.
      * destruct H3 as [H3|H3]; [left; exact H3|right; right; exact H3].
Qed.

Lemma max_from_spec : forall l cur,
  le Ops cur (max_from Ops cur l) /\ (forall x, In x l -> le Ops x (max_from Ops cur l)) /\
  (max_from Ops cur l = cur \/ In (max_from Ops cur l) l).
Proof.
  induction l as [|v r IH]; intros cur; cbn [max_from].
  - split; [apply le_refl; auto|]. split; [intros x []|left; reflexivity].
  - destruct (nltb Ops cur v) eqn:E.
    + destruct (IH v) as (H1 & H2 & H3). split; [|split].
      * apply (le_trans Ops OL _ v); auto. apply lt_le; auto.
      * intros x [<-|Hx]; auto.
      * right. destruct H3 as [->|H3]; [left; reflexivity|right; exact H3].
    + destruct (IH cur) as (H1 & H2 & H3). split; [exact H1|split].
      * intros x [<-|Hx]; auto. apply (le_trans Ops OL _ cur); auto.
      * destruct H3 as [H3|H3]; [left; exact H3|right; right; exact H3].
Qed.

Definition least (l : list T) (m : T) : Prop := In m l /\ forall x, In x l -> le Ops m x.
Definition greatest (l : list T) (m : T) : Prop := In m l /\ forall x, In x l -> le Ops x m.

Lemma min_element_spec l : l <> [] -> exists m, min_element Ops l = Ok m /\ least l m.
Proof.
  destruct l as [|a r]; [congruence|]. intros _. exists (min_from Ops a r). split; [reflexivity|].
  destruct (min_from_spec r a) as (H1 & H2 & H3). split.
  - destruct H3 as [->|H3]; [left; reflexivity|right; exact H3].
  - intros x [<-|Hx]; auto.
Qed.
Lemma max_element_spec l : l <> [] -> exists m, max_element Ops l = Ok m /\ greatest l m.
Proof.
  destruct l as [|a r]; [congruence|]. intros _. exists (max_from Ops a r). split; [reflexivity|].
  destruct (max_from_spec r a) as (H1 & H2 & H3). split.
  - destruct H3 as [->|H3]; [left; reflexivity|right; exact H3].
  - intros x [<-|Hx]; auto.
Qed.

Lemma map_res_ok {A B : Type} (f : A -> res B) (P : A -> B -> Prop) : forall l,
  (forall a, In a l -> exists b, f a = Ok b /\ P a b) ->
  exists bs, map_res f l = Ok bs /\ Forall2 P l bs.
Proof.
  induction l as [|a r IH]; intros H; cbn [map_res].
  - exists []. split; [reflexivity|constructor].
  - destruct (H a (or_introl eq_refl)) as (b & Eb & Pb). rewrite Eb. cbn [rbind].
    destruct IH as (bs & Ebs & Pbs); [intros a' Ha'; apply H; right; exact Ha'|].
    rewrite Ebs. cbn [rbind]. exists (b :: bs). split; [reflexivity|constructor; auto].
Qed.
Lemma Forall2_In_l {A B : Type} (P : A -> B -> Prop) l bs : Forall2 P l bs ->
  forall a, In a l -> exists b, In b bs /\ P a b.
Proof.
  induction 1 as [|a0 b0 l' bs' H0 H IH]; intros a []; subst.
  - exists b0. split; [left; reflexivity|exact H0].
  - destruct (IH a H1) as (b & Hb & Pb). exists b. split; [right; exact Hb|exact Pb].
Qed.
Lemma Forall2_In_r {A B : Type} (P : A -> B -> Prop) l bs : Forall2 P l bs ->
  forall b, In b bs -> exists a, In a l /\ P a b.
Proof.
  induction 1 as [|a0 b0 l' bs' H0 H IH]; intros b []; subst.
  - exists a0. split; [left; reflexivity|exact H0].
  - destruct (IH b H1) as (a & Ha & Pa). exists a. split; [right; exact Ha|exact Pa].
Qed.

Definition attained (m : T) : Prop := exists i j, 0 <= i < Nx /\ 0 <= j < Ny /\ m = fv i j.

Lemma rows2_In row : In row (rows2 Nx Ny fv) <-> exists i, 0 <= i < Nx /\ row = map (fun j => fv i j) (zrange Ny).
Proof.
  unfold rows2. rewrite in_map_iff. split.
  - intros (i & <- & Hi). exists i. split; [apply zrange_spec; exact Hi|reflexivity].
  - intros (i & Hi & ->). exists i. split; [reflexivity|apply zrange_spec; exact Hi].
Qed.
Lemma row_In i x : In x (map (fun j => fv i j) (zrange Ny)) <-> exists j, 0 <= j < Ny /\ x = fv i j.
Proof.
  rewrite in_map_iff. split.
  - intros (j & <- & Hj). exists j. split; [apply zrange_spec; exact Hj|reflexivity].
  - intros (j & Hj & ->). exists j. split; [reflexivity|apply zrange_spec; exact Hj].
Qed.

Theorem glob2_spec mx p : exists f_min f_max,
  glob2 Ops Nx Ny fv mx p = Ok ((if mx then nmax Ops else nmin Ops) (nmul Ops p f_min) (nmul Ops p f_max)) /\
  attained f_min /\ (forall i j, 0 <= i < Nx -> 0 <= j < Ny -> le Ops f_min (fv i j)) /\
  attained f_max /\ (forall i j, 0 <= i < Nx -> 0 <= j < Ny -> le Ops (fv i j) f_max).
Proof.
  destruct HNx as [HNx2 _]. destruct HNy as [HNy2 _].
  assert (Rne : forall row, In row (rows2 Nx Ny fv) -> row <> []).
  { intros row Hr E. apply rows2_In in Hr. destruct Hr as (i & Hi & ->).
    assert (In (fv i 0) (map (fun j => fv i j) (zrange Ny))) by (apply row_In; exists 0; split; [lia|reflexivity]).
    rewrite E in H. contradiction. }
  assert (R0 : In (map (fun j => fv 0 j) (zrange Ny)) (rows2 Nx Ny fv)) by (apply rows2_In; exists 0; split; [lia|reflexivity]).
  destruct (map_res_ok (min_element Ops) least (rows2 Nx Ny fv)) as (mins & Emin & Fmin).
  { intros row Hr. apply min_element_spec. apply Rne; exact Hr. }
  destruct (map_res_ok (max_element Ops) greatest (rows2 Nx Ny fv)) as (maxs & Emax & Fmax).
  { intros row Hr. apply max_element_spec. apply Rne; exact Hr. }
  assert (Nmin : mins <> []).
  { intros E. destruct (Forall2_In_l _ _ _ Fmin _ R0) as (b & Hb & _). rewrite E in Hb. contradiction. }
  assert (Nmax : maxs <> []).
  { intros E. destruct (Forall2_In_l _ _ _ Fmax _ R0) as (b & Hb & _). rewrite E in Hb. contradiction. }
  destruct (min_element_spec mins Nmin) as (f_min & Efmin & (Imin & Lmin)).
  destruct (max_element_spec maxs Nmax) as (f_max & Efmax & (Imax & Lmax)).
  exists f_min, f_max. unfold glob2. rewrite Emin, Emax. cbn [rbind]. rewrite Efmin, Efmax. cbn [rbind].
  split; [reflexivity|]. split; [|split; [|split]].
  - destruct (Forall2_In_r _ _ _ Fmin _ Imin) as (row & Hr & (Hin & _)).
    apply rows2_In in Hr. destruct Hr as (i & Hi & ->). apply row_In in Hin. destruct Hin as (j & Hj & ->).
    exists i, j. auto.
  - intros i j Hi Hj.
    assert (Hr : In (map (fun j => fv i j) (zrange Ny)) (rows2 Nx Ny fv)) by (apply rows2_In; exists i; auto).
    destruct (Forall2_In_l _ _ _ Fmin _ Hr) as (b & Hb & (_ & Lb)).
    apply (le_trans Ops OL _ b); [apply Lmin; exact Hb|apply Lb; apply row_In; exists j; auto].
  - destruct (Forall2_In_r _ _ _ Fmax _ Imax) as (row & Hr & (Hin & _)).
    apply rows2_In in Hr. destruct Hr as (i & Hi & ->). apply row_In in Hin. destruct Hin as (j & Hj & ->).
    exists i, j. auto.
  - intros i j Hi Hj.
    assert (Hr : In (map (fun j => fv i j) (zrange Ny)) (rows2 Nx Ny fv)) by (apply rows2_In; exists i; auto).
    destruct (Forall2_In_l _ _ _ Fmax _ Hr) as (b & Hb & (_ & Lb)).
    apply (le_trans Ops OL _ b); [apply Lb; apply row_In; exists j; auto|apply Lmax; exact Hb].
Qed.

Lemma nmin_le a b : le Ops (nmin Ops a b) a /\ le Ops (nmin Ops a b) b /\ (nmin Ops a b = a \/ nmin Ops a b = b).
Proof.
  unfold nmin. destruct (nltb Ops b a) eqn:E.
  - split; [apply lt_le; auto|]. split; [apply le_refl; auto|right; reflexivity].
  - split; [apply le_refl; auto|]. split; [exact E|left; reflexivity].
Qed.
Lemma nmax_ge a b : le Ops a (nmax Ops a b) /\ le Ops b (nmax Ops a b) /\ (nmax Ops a b = a \/ nmax Ops a b = b).
Proof.
  unfold nmax. destruct (nltb Ops a b) eqn:E.
  - split; [apply lt_le; auto|]. split; [apply le_refl; auto|right; reflexivity].
  - split; [apply le_refl; auto|]. split; [exact E|left; reflexivity].
Qed.

(** "all outputs change by exactly the stated factor", for the extrema: when the multiplication by the prefactor p is
    monotone (p >= 0) or antitone (p <= 0) — true of IEEE multiplication, rounding included — Global_Minimum is the
    least and Global_Maximum the greatest of the products p * f[i][j], and it is one of these products. *)
Theorem glob2_scaled mx p :
  ((forall a b, le Ops a b -> le Ops (nmul Ops p a) (nmul Ops p b)) \/
   (forall a b, le Ops a b -> le Ops (nmul Ops p b) (nmul Ops p a))) ->
  exists v, glob2 Ops Nx Ny fv mx p = Ok v /\
    (exists i j, 0 <= i < Nx /\ 0 <= j < Ny /\ v = nmul Ops p (fv i j)) /\
    (forall i j, 0 <= i < Nx -> 0 <= j < Ny ->
       if mx then le Ops (nmul Ops p (fv i j)) v else le Ops v (nmul Ops p (fv i j))).
Proof.
  intros Hm. destruct (glob2_spec mx p) as (m & M & E & (im & jm & Him & Hjm & Em) & Lm & (iM & jM & HiM & HjM & EM) & LM).
  eexists. split; [exact E|]. split.
  - destruct mx.
    + destruct (nmax_ge (nmul Ops p m) (nmul Ops p M)) as (_ & _ & [->| ->]);
        [exists im, jm; rewrite Em; auto|exists iM, jM; rewrite EM; auto].
    + destruct (nmin_le (nmul Ops p m) (nmul Ops p M)) as (_ & _ & [->| ->]);
        [exists im, jm; rewrite Em; auto|exists iM, jM; rewrite EM; auto].
  - intros i j Hi Hj. destruct mx.
    + destruct (nmax_ge (nmul Ops p m) (nmul Ops p M)) as (A & B & _). destruct Hm as [Hm|Hm].
      * apply (le_trans Ops OL _ (nmul Ops p M)); [apply Hm; apply LM; auto|exact B].
      * apply (le_trans Ops OL _ (nmul Ops p m)); [apply Hm; apply Lm; auto|exact A].
    + destruct (nmin_le (nmul Ops p m) (nmul Ops p M)) as (A & B & _). destruct Hm as [Hm|Hm].
      * apply (le_trans Ops OL _ (nmul Ops p m)); [exact A|apply Hm; apply Lm; auto].
      * apply (le_trans Ops OL _ (nmul Ops p M)); [exact B|apply Hm; apply LM; auto].
Qed.

Lemma interpolate2_sim a b x y : sim2 a b ->
  (exists a' b' r, interpolate2 a x y = Ok (a', r) /\ interpolate2 b x y = Ok (b', r) /\
                   sim2 a' b' /\ pf2 a' = pf2 a) \/
  (interpolate2 a x y = Exit /\ interpolate2 b x y = Exit).
Proof.
  destruct HNx as [HNx2 HNxm]. destruct HNy as [HNy2 HNym].
  intros ((Hax & Hay) & (Hbx & Hby) & Hp). unfold C09_Model.interpolate2, locate.
  rewrite (locate_index_indep Ops OL Nx xv Hincx HNx (sx a) (sx b) x Hax Hbx).
  destruct (locate_index_spec Ops OL Nx xv Hincx HNx (sx b) x Hbx) as [(i & Hl & Hi & _ & _)|[Hl _]];
    rewrite Hl; cbn [rbind]; [|right; auto].
  rewrite (locate_index_indep Ops OL Ny yv Hincy HNy (sy a) (sy b) y Hay Hby).
  destruct (locate_index_spec Ops OL Ny yv Hincy HNy (sy b) y Hby) as [(j & Hm & Hj & _ & _)|[Hm _]];
    rewrite Hm; cbn [rbind]; [|right; auto].
  rewrite !(getx_ok Nx xv) by lia. rewrite !(getx_ok Ny yv) by lia. cbn [rbind].
  rewrite !getf_ok by lia. cbn [rbind]. rewrite Hp.
  left. do 3 eexists. split; [reflexivity|]. split; [reflexivity|].
  split; [|reflexivity]. unfold sim2, inv2, inv; cbn. auto.
Qed.

Theorem step2_sim a b q : sim2 a b ->
  snd (step2 a q) = snd (step2 b q) /\ sim2 (fst (step2 a q)) (fst (step2 b q)) /\
  pf2 (fst (step2 a q)) = prefactor2_after [q] (pf2 a) /\
  snd (step2 a q) <> @O2OOB T /\ snd (step2 a q) <> @O2Fuel T.
Proof.
  intros Hs. destruct q; cbn [C09_Model.step2 prefactor2_after fold_left].
  - destruct (interpolate2_sim a b x y Hs) as [(a' & b' & [[i j] v] & -> & -> & Hs' & Hp)|[-> ->]]; cbn.
    + split; [reflexivity|]. split; [exact Hs'|]. split; [exact Hp|split; discriminate].
    + split; [reflexivity|]. split; [exact Hs|]. split; [reflexivity|split; discriminate].
  - destruct Hs as ((Hax & Hay) & (Hbx & Hby) & Hp). cbn.
    split; [reflexivity|].
    split; [split; [split; assumption|split; [split; assumption|reflexivity]]|].
    split; [reflexivity|split; discriminate].
  - destruct Hs as ((Hax & Hay) & (Hbx & Hby) & Hp). cbn. rewrite Hp.
    split; [reflexivity|].
    split; [split; [split; assumption|split; [split; assumption|reflexivity]]|].
    split; [reflexivity|split; discriminate].
  - destruct Hs as ((Hax & Hay) & (Hbx & Hby) & Hp). cbn.
    split; [reflexivity|].
    split; [split; [split; assumption|split; [split; assumption|exact Hp]]|].
    split; [reflexivity|split; discriminate].
  - destruct (glob2_spec false (pf2 a)) as (m & M & E & _). rewrite <- (proj2 (proj2 Hs)). rewrite E. cbn.
    split; [reflexivity|]. split; [exact Hs|]. split; [reflexivity|split; discriminate].
  - destruct (glob2_spec true (pf2 a)) as (m & M & E & _). rewrite <- (proj2 (proj2 Hs)). rewrite E. cbn.
    split; [reflexivity|]. split; [exact Hs|]. split; [reflexivity|split; discriminate].
Qed.

Lemma inv2_init : inv2 (init2 Ops).
Proof. split; apply inv_fresh; auto. Qed.

Lemma run2_cons q h st : run2 (q :: h) st = run2 h (fst (step2 st q)).
Proof. reflexivity. Qed.

Lemma run2_inv_pf h : forall st, inv2 st ->
  inv2 (run2 h st) /\ pf2 (run2 h st) = prefactor2_after h (pf2 st).
Proof.
  induction h as [|q h IH]; intros st H; [split; [exact H|reflexivity]|].
  rewrite run2_cons.
  destruct (step2_sim st st q) as (_ & (Hi & _) & Hp & _); [unfold sim2; auto|].
  destruct (IH _ Hi) as (IH1 & IH2). split; auto. rewrite IH2, Hp. reflexivity.
Qed.

(** the 2-D history theorem *)
Theorem history_free2 h q :
  snd (step2 (run2 h (init2 Ops)) q) =
  snd (step2 (mkState2 (init Ops) (init Ops) (prefactor2_after h (n1 Ops))) q).
Proof.
  destruct (run2_inv_pf h (init2 Ops) inv2_init) as (Hi & Hp).
  apply step2_sim. split; auto. split; [apply inv2_init|]. exact Hp.
Qed.

Fixpoint trace2 (ops : list (op2 T)) (st : state2 T) : list (out2 T) :=
  match ops with [] => [] | q :: r => snd (step2 st q) :: trace2 r (fst (step2 st q)) end.
Lemma trace2_sim ops : forall a b, sim2 a b -> trace2 ops a = trace2 ops b.
Proof.
  induction ops as [|q r IH]; intros a b Hs; [reflexivity|]. cbn [trace2].
  destruct (step2_sim a b q Hs) as (A & B & _). rewrite A. f_equal. apply IH. exact B.
Qed.
Theorem continuation_free2 h rest :
  trace2 rest (run2 h (init2 Ops)) = trace2 rest (mkState2 (init Ops) (init Ops) (prefactor2_after h (n1 Ops))).
Proof.
  destruct (run2_inv_pf h (init2 Ops) inv2_init) as (Hi & Hp).
  apply trace2_sim. split; auto. split; [apply inv2_init|]. exact Hp.
Qed.

Theorem no_oob_no_fuel2 h q :
  snd (step2 (run2 h (init2 Ops)) q) <> @O2OOB T /\ snd (step2 (run2 h (init2 Ops)) q) <> @O2Fuel T.
Proof.
  destruct (run2_inv_pf h (init2 Ops) inv2_init) as (Hi & Hp).
  apply (step2_sim _ _ q (conj Hi (conj Hi eq_refl))).
Qed.
End TwoD.

(** ** Packaging for the property file: the five evaluation parameters as one record *)
Record evals (T : Type) : Type := mkEvals {
  ev_seg : Z -> T -> T;
  ev_deriv : Z -> T -> Z -> T;
  ev_integ : Z -> Z -> T -> T -> T -> T;
  ev_ext : bool -> T -> T -> Z -> Z -> T -> T -> T -> T;
  ev_glob : bool -> T -> T }.
Arguments ev_seg {T}. Arguments ev_deriv {T}. Arguments ev_integ {T}. Arguments ev_ext {T}. Arguments ev_glob {T}.

Definition stepE {T} (Ops : NumOps T) N xv (E : evals T) : state T -> op T -> state T * out T :=
  step Ops N xv (ev_seg E) (ev_deriv E) (ev_integ E) (ev_ext E) (ev_glob E).
Definition runE {T} (Ops : NumOps T) N xv (E : evals T) : list (op T) -> state T -> state T :=
  run Ops N xv (ev_seg E) (ev_deriv E) (ev_integ E) (ev_ext E) (ev_glob E).

Definition traceE {T} (Ops : NumOps T) N xv (E : evals T) : list (op T) -> state T -> list (out T) :=
  trace Ops N xv (ev_seg E) (ev_deriv E) (ev_integ E) (ev_ext E) (ev_glob E).

(** ** Non-vacuity: an instance with decidable comparisons (the integers) on which the model computes *)
Definition ZOps : NumOps Z :=
  mkNumOps Z 0 1 Z.add Z.sub Z.mul Z.div Z.opp Z.abs Z.sqrt Z.ltb Z.leb Z.eqb (fun z => z) (fun _ => false)
           (fun z => z) (fun z => z) (fun z => z) (fun z => z) (fun z => z) (fun z => z) (fun z => z) (fun z => z)
           (fun x _ => x) (fun x _ => x) (fun a _ _ _ => a) (fun z => z).

Lemma ZOps_OrdLaws : OrdLaws ZOps.
Proof.
  constructor; cbn; intros.
  - apply Z.ltb_irrefl.
  - apply Z.ltb_lt in H, H0. apply Z.ltb_lt. lia.
  - destruct (Z.lt_trichotomy x y) as [H|[H|H]].
    + left. now apply Z.ltb_lt.
    + right; left. now apply Z.eqb_eq.
    + right; right. now apply Z.ltb_lt.
  - destruct (Z.leb_spec x y), (Z.ltb_spec y x); cbn; try reflexivity; lia.
  - rewrite Z.eqb_eq, !Z.ltb_ge. lia.
  - apply Z.eqb_eq in H. now subst.
  - apply Z.eqb_eq in H. now subst.
Qed.

(** the search kinds of a sequence of Locate calls (model-side trace) *)
Fixpoint locate_kinds {T} (Ops : NumOps T) N xv (xs : list T) (st : state T) : list Z :=
  match xs with
  | [] => []
  | x :: r => locate_kind Ops N xv st x ::
              match locate Ops N xv st x with Ok (s, _) => locate_kinds Ops N xv r s | _ => [] end
  end.

Definition ex_xv (i : Z) : Z := 10 * i.
Lemma ex_increasing : increasing ZOps 40 ex_xv.
Proof. intros i j Hi Hij Hj. change (10 * i <? 10 * j = true). apply Z.ltb_lt. lia. Qed.
Lemma ex_size_ok : size_ok 40.
Proof. unfold size_ok. lia. Qed.

(** the hypotheses of the theorems are satisfiable, and on this instance a history runs the bisection
    (1), the hunt upwards (2), the hunt downwards (3) and the hunt that stops at once (4) *)
Example ex_hypotheses : OrdLaws ZOps /\ increasing ZOps 40 ex_xv /\ size_ok 40 /\ OrdLaws ROps.
Proof.
  split; [apply ZOps_OrdLaws|]. split; [apply ex_increasing|]. split; [apply ex_size_ok|apply ROps_OrdLaws].
Qed.

Definition ex_args : list Z := [55; 72; 385; 390; 14; 200; 205; 200; 203; 199; 0; 5; 12].
Example ex_trace :
  locate_kinds ZOps 40 ex_xv ex_args (init ZOps) = [1; 2; 2; 1; 3; 1; 1; 4; 2; 3; 1; 1; 2].
Proof. vm_compute. reflexivity. Qed.

Definition ex_evals : evals Z :=
  mkEvals Z (fun j x => 100 * j + x) (fun j x k => j + k) (fun _ _ _ _ _ => 0) (fun _ _ _ _ _ _ _ _ => 0) (fun _ p => p).
Definition ex_history : list (op Z) :=
  map (fun x => OpLocate x) ex_args ++ [OpSetPrefactor 3; OpMultiply (-2); OpCopy; OpInterpolate 77].
Example ex_history_free :
  runE ZOps 40 ex_xv ex_evals ex_history (init ZOps) = mkState 7 true (-6) /\
  snd (stepE ZOps 40 ex_xv ex_evals (runE ZOps 40 ex_xv ex_evals ex_history (init ZOps)) (OpInterpolate 250))
    = OValue [25] (-16500) /\
  snd (stepE ZOps 40 ex_xv ex_evals (fresh (-6)) (OpInterpolate 250)) = OValue [25] (-16500).
Proof. vm_compute. repeat split. Qed.

(** ** A NaN argument ends the process in every state (no premise on the table or the order) *)
Lemma nan_argument_exits {T : Type} (Ops : NumOps T) N xv (E : evals T) (st : state T) (x : T) :
  nisnan Ops x = true ->
  locate_index Ops N xv st x = Exit /\
  snd (stepE Ops N xv E st (OpLocate x)) = OExit /\
  snd (stepE Ops N xv E st (OpInterpolate x)) = OExit /\
  (forall k, snd (stepE Ops N xv E st (OpDerivative x k)) = OExit).
Proof.
  intros H. assert (L : locate Ops N xv st x = Exit) by (unfold locate; rewrite locate_index_nan; auto).
  split; [apply locate_index_nan; auto|].
  unfold stepE; cbn [C09_Model.step]. unfold interpolate, derivative. rewrite L. cbn. auto.
Qed.
