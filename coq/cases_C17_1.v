From Coq Require Import Reals Lra.
From Coquelicot Require Import Coquelicot.
From Interval Require Import Tactic.
From LP Require Import NumR C17_Defs.
Open Scope R_scope.
Lemma s3_1 : Rabs (dawson_def (IZR (-3602879701896397) * powerRZ 2 (-54)) - (IZR (-1754160916702893) * powerRZ 2 (-53))) <= 2 / 10000000.
Proof. unfold dawson_def. integral with (i_prec 60). Qed.
Lemma s3_11 : Rabs (dawson_def (IZR (248970892192377) * powerRZ 2 (-50)) - (IZR (7712356892066021) * powerRZ 2 (-55))) <= 2 / 10000000.
Proof. unfold dawson_def. integral with (i_prec 60). Qed.
Lemma s3_21 : Rabs (dawson_def (IZR (1801437668438255) * powerRZ 2 (-53)) - (IZR (7016637090418399) * powerRZ 2 (-55))) <= 2 / 10000000.
Proof. unfold dawson_def. integral with (i_prec 60). Qed.
Lemma s3_31 : Rabs (dawson_def (IZR (-2078314989159277) * powerRZ 2 (-46)) - (IZR (-610291546350329) * powerRZ 2 (-55))) <= 2 / 10000000.
Proof. unfold dawson_def. integral with (i_prec 60). Qed.
Lemma s3_41 : Rabs ((IZR (1030069112527691) * powerRZ 2 (-52)) - erfi_def (IZR (7205759403792793) * powerRZ 2 (-55))) <= 1 / 1000000 * Rabs (erfi_def (IZR (7205759403792793) * powerRZ 2 (-55))).
Proof. apply rel_error_from_enclosure; [lra|interval|]. unfold erfi_def. split; integral with (i_prec 80). Qed.
Lemma s3_51 : Rerf ((IZR (-1073965017896961) * powerRZ 2 (-51)) - 1 / 10000) < (IZR (-1) * powerRZ 2 (-1)) < Rerf ((IZR (-1073965017896961) * powerRZ 2 (-51)) + 1 / 10000).
Proof. unfold Rerf. split; integral with (i_prec 80). Qed.
