(** C17 — Dawson_Integral, small-argument branch (|x| < 0.2): the truncated series is within (16/945) |x|^9 <= 8.7e-9
    of Dawson's integral, for EVERY real x of the branch (no sampling). *)
From Coq Require Import Reals ZArith Lra Lia Psatz.
From Coquelicot Require Import Coquelicot.
From LP Require Import Num NumR Gen_C17_Formulas C17_Model C17_Defs C17_Proofs.
Local Open Scope R_scope.

(** the polynomial of the source: x (1 - A1 x^2 (1 - A2 x^2 (1 - A3 x^2))), A1 = 2/3, A2 = 0.4, A3 = 2/7 *)
Definition daw_poly (x : R) : R := x * (1 - 2 / 3 * (x * x) * (1 - 2 / 5 * (x * x) * (1 - 2 / 7 * (x * x)))).

Lemma dawson_small_branch x : Rabs x < 1 / 5 -> dawson ROps x = daw_poly x.
Proof.
  intros H. unfold dawson. cbn [nabs ROps].
  replace (nltb ROps (Rabs x) (ndec ROps 1 5)) with true.
  - unfold daw_poly. cbn. reflexivity.
  - symmetry. cbn. apply Rltb_true. lra.
Qed.

Lemma dawson_big_branch_iff x : 1 / 5 <= Rabs x -> nltb ROps (Rabs x) (ndec ROps 1 5) = false.
Proof. intros H. cbn. apply Rltb_false. lra. Qed.

(** residual of the series in Dawson's differential equation D' + 2 x D = 1:  P' + 2 x P = 1 - (16/105) x^8 *)
Definition daw_res (t : R) : R := 16 / 105 * t ^ 8.

Lemma F_derive t : is_derive (fun u => exp (u * u) * daw_poly u) t (exp (t * t) * (1 - daw_res t)).
Proof. unfold daw_poly, daw_res. auto_derive; [exact I|]. field. Qed.

Lemma cont_g t : continuous (fun u => exp (u * u) * (1 - daw_res u)) t.
Proof. apply (ex_derive_continuous (V := R_NormedModule)). unfold daw_res. auto_derive. exact I. Qed.

Lemma cont_er t : continuous (fun u => exp (u * u) * daw_res u) t.
Proof. apply (ex_derive_continuous (V := R_NormedModule)). unfold daw_res. auto_derive. exact I. Qed.

Lemma exp_poly_RInt x : is_RInt (fun u => exp (u * u) * (1 - daw_res u)) 0 x (exp (x * x) * daw_poly x).
Proof.
  replace (exp (x * x) * daw_poly x) with (minus (exp (x * x) * daw_poly x) (exp (0 * 0) * daw_poly 0)).
  - apply (is_RInt_derive (fun u => exp (u * u) * daw_poly u)).
    + intros t _. apply F_derive.
    + intros t _. apply cont_g.
  - unfold minus, plus, opp; cbn. unfold daw_poly. ring.
Qed.

(** exp(x^2) P(x) = int_0^x exp(t^2) dt - int_0^x exp(t^2) r(t) dt *)
Lemma exp_poly_split x :
  exp (x * x) * daw_poly x = RInt (fun t => exp (t * t)) 0 x - RInt (fun t => exp (t * t) * daw_res t) 0 x.
Proof.
  assert (E1: ex_RInt (fun t => exp (t * t)) 0 x).
  { apply (@ex_RInt_continuous R_CompleteNormedModule). intros z _. apply exp_sq_cont. }
  assert (E2: ex_RInt (fun t => exp (t * t) * daw_res t) 0 x).
  { apply (@ex_RInt_continuous R_CompleteNormedModule). intros z _. apply cont_er. }
  symmetry.
  rewrite <- (is_RInt_unique _ _ _ _ (exp_poly_RInt x)).
  rewrite <- (RInt_minus (V := R_CompleteNormedModule)) by assumption.
  apply RInt_ext. intros t _. unfold minus, plus, opp; cbn. ring.
Qed.

(** the remainder integral: for a <= b and t^2 <= M on [a,b],  0 <= int_a^b exp(t^2) r(t) dt <= exp(M) (16/945) (b^9 - a^9) *)
Lemma rem_bounds a b M : a <= b -> (forall t, a <= t <= b -> t * t <= M) ->
  0 <= RInt (fun t => exp (t * t) * daw_res t) a b <= exp M * (16 / 945) * (b ^ 9 - a ^ 9).
Proof.
  intros Hab HM.
  assert (E2: ex_RInt (fun t => exp (t * t) * daw_res t) a b).
  { apply (@ex_RInt_continuous R_CompleteNormedModule). intros z _. apply cont_er. }
  assert (I3: is_RInt (fun t => exp M * daw_res t) a b (exp M * (16 / 945) * (b ^ 9 - a ^ 9))).
  { replace (exp M * (16 / 945) * (b ^ 9 - a ^ 9)) with (minus (exp M * (16 / 945) * b ^ 9) (exp M * (16 / 945) * a ^ 9))
      by (unfold minus, plus, opp; cbn; ring).
    apply (is_RInt_derive (fun u => exp M * (16 / 945) * u ^ 9)).
    - intros t _. unfold daw_res. auto_derive; [exact I|]. field.
    - intros t _. apply (ex_derive_continuous (V := R_NormedModule)). unfold daw_res. auto_derive. exact I. }
  assert (res_nonneg: forall t, 0 <= daw_res t).
  { intros t. unfold daw_res. replace (t ^ 8) with ((t ^ 4) ^ 2) by ring. pose proof (pow2_ge_0 (t ^ 4)). lra. }
  split.
  - replace 0 with (RInt (fun _ : R => 0) a b).
    + apply RInt_le; try assumption.
      * apply ex_RInt_const.
      * intros t _. pose proof (exp_pos (t * t)). pose proof (res_nonneg t). nra.
    + rewrite RInt_const. unfold scal; cbn. unfold mult; cbn. ring.
  - rewrite <- (is_RInt_unique _ _ _ _ I3).
    apply RInt_le; try assumption.
    + eexists; exact I3.
    + intros t Ht. apply Rmult_le_compat_r; [apply res_nonneg|].
      destruct (Rle_lt_or_eq_dec (t * t) M) as [Hl|He]; [apply HM; lra| left; apply exp_increasing; exact Hl | rewrite He; right; reflexivity].
Qed.

Theorem dawson_series_error x : Rabs x < 1 / 5 ->
  Rabs (dawson ROps x - dawson_def x) <= 16 / 945 * Rabs x ^ 9.
Proof.
  intros Hx. rewrite dawson_small_branch by assumption. rewrite dawson_def_alt.
  assert (Hs := exp_poly_split x).
  assert (Hp: daw_poly x = exp (- (x * x)) * (exp (x * x) * daw_poly x)).
  { rewrite <- Rmult_assoc, <- exp_plus. replace (- (x * x) + x * x) with 0 by ring. rewrite exp_0. ring. }
  rewrite Hp, Hs.
  set (J := RInt (fun t => exp (t * t) * daw_res t) 0 x).
  replace (exp (- (x * x)) * (RInt (fun t => exp (t * t)) 0 x - J) - exp (- (x * x)) * RInt (fun t => exp (t * t)) 0 x)
    with (- (exp (- (x * x)) * J)) by ring.
  rewrite Rabs_Ropp, Rabs_mult, (Rabs_pos_eq (exp _)) by (left; apply exp_pos).
  assert (Hee: exp (- (x * x)) * exp (x * x) = 1).
  { rewrite <- exp_plus. replace (- (x * x) + x * x) with 0 by ring. apply exp_0. }
  pose proof (exp_pos (- (x * x))) as Hpos.
  destruct (Rle_lt_dec 0 x) as [H0|H0].
  - destruct (rem_bounds 0 x (x * x) H0) as [B1 B2]. { intros t Ht. nra. }
    fold J in B1, B2. rewrite (Rabs_pos_eq J) by assumption. rewrite (Rabs_pos_eq x) by assumption.
    apply Rle_trans with (exp (- (x * x)) * (exp (x * x) * (16 / 945) * (x ^ 9 - 0 ^ 9))).
    + apply Rmult_le_compat_l; lra.
    + replace (exp (- (x * x)) * (exp (x * x) * (16 / 945) * (x ^ 9 - 0 ^ 9))) with ((exp (- (x * x)) * exp (x * x)) * (16 / 945 * x ^ 9)) by ring.
      rewrite Hee. lra.
  - destruct (rem_bounds x 0 (x * x)) as [B1 B2]. { lra. } { intros t Ht. nra. }
    assert (HJ: J = - RInt (fun t => exp (t * t) * daw_res t) x 0).
    { unfold J. rewrite <- (opp_RInt_swap (V := R_CompleteNormedModule)); [reflexivity|].
      apply (@ex_RInt_continuous R_CompleteNormedModule). intros z _. apply cont_er. }
    rewrite HJ, Rabs_Ropp, Rabs_pos_eq by assumption. rewrite (Rabs_left x) by assumption.
    apply Rle_trans with (exp (- (x * x)) * (exp (x * x) * (16 / 945) * (0 ^ 9 - x ^ 9))).
    + apply Rmult_le_compat_l; lra.
    + replace (exp (- (x * x)) * (exp (x * x) * (16 / 945) * (0 ^ 9 - x ^ 9))) with ((exp (- (x * x)) * exp (x * x)) * (16 / 945 * (- x) ^ 9)) by ring.
      rewrite Hee. lra.
Qed.

(** the property's bound on the whole branch: 2e-7 (in fact 8.7e-9) *)
Theorem dawson_series_accuracy x : Rabs x < 1 / 5 -> Rabs (dawson ROps x - dawson_def x) <= 2 / 10000000.
Proof.
  intros Hx. eapply Rle_trans; [apply dawson_series_error; assumption|].
  assert (H9: Rabs x ^ 9 <= (1 / 5) ^ 9).
  { apply pow_incr. split; [apply Rabs_pos|lra]. }
  lra.
Qed.

(** ** Erfi on the same branch: relative accuracy 1e-6 for EVERY real |x| < 0.2 (erfi(x) >= 2/sqrt(pi) |x| in magnitude) *)
Lemma int_exp_sq_lower a b : a <= b -> b - a <= RInt (fun t => exp (t * t)) a b.
Proof.
  intros Hab.
  replace (b - a) with (RInt (fun _ : R => 1) a b).
  - apply RInt_le; [assumption|apply ex_RInt_const| |].
    + apply (@ex_RInt_continuous R_CompleteNormedModule). intros z _. apply exp_sq_cont.
    + intros t _. pose proof (exp_ineq1_le (t * t)). nra.
  - rewrite RInt_const. unfold scal; cbn. unfold mult; cbn. ring.
Qed.

Lemma int_exp_sq_abs_lower x : Rabs x <= Rabs (RInt (fun t => exp (t * t)) 0 x).
Proof.
  destruct (Rle_lt_dec 0 x) as [H|H].
  - pose proof (int_exp_sq_lower 0 x H). rewrite (Rabs_pos_eq x) by assumption. rewrite Rabs_pos_eq; lra.
  - assert (H0: x <= 0) by lra. pose proof (int_exp_sq_lower x 0 H0) as L.
    rewrite <- (opp_RInt_swap (V := R_CompleteNormedModule)).
    2:{ apply (@ex_RInt_continuous R_CompleteNormedModule). intros z _. apply exp_sq_cont. }
    remember (RInt (fun t => exp (t * t)) x 0) as J eqn:EJ. clear EJ. unfold opp; cbn. rewrite Rabs_Ropp, (Rabs_left x) by assumption. rewrite Rabs_pos_eq; lra.
Qed.

Lemma erfi_rel_core (x I P D : R) : I = exp (x * x) * D -> Rabs x <= Rabs I -> Rabs (P - D) <= 16 / 945 * Rabs x ^ 9 -> Rabs x < 1 / 5 ->
  Rabs (2 / sqrt PI * exp (x * x) * P - 2 / sqrt PI * I) <= 1 / 1000000 * Rabs (2 / sqrt PI * I).
Proof.
  intros HI Lw E Hx.
  assert (c_pos: 0 < 2 / sqrt PI). { apply Rdiv_lt_0_compat; [lra|apply sqrt_lt_R0, PI_RGT_0]. }
  replace (2 / sqrt PI * exp (x * x) * P - 2 / sqrt PI * I) with (2 / sqrt PI * (exp (x * x) * (P - D))) by (rewrite HI; ring).
  rewrite !Rabs_mult, (Rabs_pos_eq (2 / sqrt PI)) by lra. rewrite (Rabs_pos_eq (exp _)) by (left; apply exp_pos).
  replace (1 / 1000000 * (2 / sqrt PI * Rabs I)) with (2 / sqrt PI * (1 / 1000000 * Rabs I)) by ring.
  apply Rmult_le_compat_l; [lra|].
  assert (He: exp (x * x) <= 21 / 20).
  { assert (H: x * x <= 1 / 25). { pose proof (Rabs_pos x). replace (x * x) with (Rabs x * Rabs x) by (rewrite <- Rabs_mult; apply Rabs_pos_eq; nra). nra. }
    apply Rle_trans with (exp (1 / 25)).
    2:{ (* exp(-1/25) >= 1 - 1/25, hence exp(1/25) <= 25/24 *)
        pose proof (exp_ineq1_le (- (1 / 25))) as Hi. pose proof (exp_pos (1 / 25)) as Hp1.
        assert (Hm: exp (1 / 25) * exp (- (1 / 25)) = 1) by (rewrite <- exp_plus; replace (1 / 25 + - (1 / 25)) with 0 by lra; apply exp_0).
        nra. }
    destruct (Rle_lt_or_eq_dec _ _ H) as [Hl|Heq]; [left; apply exp_increasing; exact Hl|rewrite Heq; right; reflexivity]. }
  assert (H8: Rabs x ^ 8 <= (1 / 5) ^ 8). { apply pow_incr. split; [apply Rabs_pos|lra]. }
  pose proof (Rabs_pos x) as Hp. pose proof (exp_pos (x * x)) as Hq.
  assert (H9: Rabs x ^ 9 = Rabs x * Rabs x ^ 8) by ring.
  apply Rle_trans with (21 / 20 * (16 / 945 * (Rabs x * (1 / 5) ^ 8))).
  - apply Rle_trans with (exp (x * x) * (16 / 945 * Rabs x ^ 9)).
    + apply Rmult_le_compat_l; lra.
    + rewrite H9. apply Rmult_le_compat; try lra.
      * assert (0 <= Rabs x ^ 8) by (apply pow_le; assumption). nra.
      * apply Rmult_le_compat_l; [lra|]. apply Rmult_le_compat_l; assumption.
  - lra.
Qed.

Theorem erfi_series_accuracy x : Rabs x < 1 / 5 ->
  Rabs (erfi ROps PI x - erfi_def x) <= 1 / 1000000 * Rabs (erfi_def x).
Proof.
  intros Hx. rewrite erfi_model. unfold erfi_def.
  apply (erfi_rel_core x _ _ (dawson_def x)).
  - rewrite dawson_def_alt, <- Rmult_assoc, <- exp_plus. replace (x * x + - (x * x)) with 0 by ring. rewrite exp_0. symmetry. apply Rmult_1_l.
  - apply int_exp_sq_abs_lower.
  - apply dawson_series_error, Hx.
  - exact Hx.
Qed.
