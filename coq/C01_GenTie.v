(** * C01 T-tie: int Sign(double) of src/Special_Functions.cpp -- the sign function of Steffen's slope limiter,
    dy_i = (Sign(.) + Sign(.)) * min(...) in Compute_Steffen_Coefficients -- is regenerated from the source on every run
    of the check (Gen_C01_Formulas.v, tools/cxx2gallina.py) and proved equal to [sign1] (coq/Num.v), the term the model's
    [dyy] is written with.  The generated term spells the source literal 0.0 as [nlit Ops 0 1 0 0]; Num.v writes [n0 Ops]:
    the two agree in every instance in which that literal is the constant 0 ([Lit0]; proved for the reals; in the double
    instance, which exists only in OCaml, nlit _ _ m e is m * 2^e = 0.0).  A change of a comparison, a branch or a returned
    constant of Sign changes the generated term and breaks [gen_Sign_is_model] before any case is run. *)
From Coq Require Import ZArith Bool Reals Lra.
From LP Require Import Num NumR C01_Model Gen_C01_Formulas.
Local Open Scope Z_scope.

Definition Lit0 {T : Type} (Ops : NumOps T) : Prop := nlit Ops 0 1 0 0 = n0 Ops.

Lemma gen_Sign_is_model {T : Type} (Ops : NumOps T) : Lit0 Ops -> forall x, g_Sign Ops x = sign1 Ops x.
Proof. intros L0 x. unfold Lit0 in L0. unfold g_Sign, sign1, ngtb. rewrite !L0. reflexivity. Qed.

Lemma ROps_Lit0 : Lit0 ROps.
Proof. unfold Lit0. cbn. lra. Qed.

(** over the reals the generated function is the mathematical sign *)
Lemma gen_Sign_R (x : R) : g_Sign ROps x = (if Rltb 0 x then 1 else if Reqb x 0 then 0 else -1).
Proof. rewrite (gen_Sign_is_model ROps ROps_Lit0). reflexivity. Qed.

(** hence the limiter's factor (Sign(u) + Sign(v)), as the model's [dyy] computes it, is the generated Sign's *)
Lemma limiter_factor_generated {T : Type} (Ops : NumOps T) : Lit0 Ops -> forall u v,
  nofZ Ops (sign1 Ops u + sign1 Ops v) = nofZ Ops (g_Sign Ops u + g_Sign Ops v).
Proof. intros L u v. rewrite !(gen_Sign_is_model Ops L). reflexivity. Qed.
