(** * C19 model: partition, grid, search, list and summary-statistics helpers
    (src/Utilities.cpp, include/libphysica/List_Manipulations.hpp, src/Statistics.cpp section 5).
    Hand-written; tied to the code by the differential correspondence check (harness/C19.cpp vs the
    extraction of this file). *)
From Coq Require Import ZArith List Bool Lia Sorting.Mergesort Orders.
From LP Require Import Num.
Import ListNotations.
Local Open Scope Z_scope.

(** ** Workload_Distribution(workers, tasks)   (Utilities.cpp) *)
(** index_list[i+1] = index_list[i] + tasks/workers, then
    for i < remainder: index_list[workers - i] += remainder - i. *)
Fixpoint wl_base (q : Z) (acc : Z) (n : nat) : list Z :=
  match n with O => [acc] | S n' => acc :: wl_base q (acc + q) n' end.

Fixpoint upd {A} (l : list A) (i : nat) (f : A -> A) : list A :=
  match l, i with
  | [], _ => []
  | a :: l', O => f a :: l'
  | a :: l', S i' => a :: upd l' i' f
  end.

Fixpoint wl_rem (l : list Z) (workers : nat) (r : Z) (i : nat) (n : nat) : list Z :=
  (* loop body for i, i+1, ..., i+n-1 *)
  match n with
  | O => l
  | S n' => wl_rem (upd l (workers - i)%nat (fun v => v + (r - Z.of_nat i))) workers r (S i) n'
  end.

Definition workload_list (workers tasks : nat) : list Z :=
  let q := Z.of_nat tasks / Z.of_nat workers in
  let r := Z.of_nat tasks mod Z.of_nat workers in
  wl_rem (wl_base q 0 workers) workers r 0 (Z.to_nat r).
(** `if(workers == 0)`: diagnostic and std::exit *)
Definition workload (workers tasks : nat) : res (list Z) :=
  match workers with O => Exit | S _ => Ok (workload_list workers tasks) end.

(** ** Range(min, max, stepsize); fuel = an upper bound on the iterations; [None] = the C++ loop
    does not terminate (ascending loop with a non-positive step). *)
Fixpoint range_down (fuel : nat) (i max step : Z) : option (list Z) :=
  match fuel with
  | O => if i >? max then None else Some []
  | S f => if i >? max then option_map (cons i) (range_down f (i - step) max step) else Some []
  end.
Fixpoint range_up (fuel : nat) (i max step : Z) : option (list Z) :=
  match fuel with
  | O => if i <? max then None else Some []
  | S f => if i <? max then option_map (cons i) (range_up f (i + step) max step) else Some []
  end.
Definition range (min max step : Z) : option (list Z) :=
  let fuel := Z.to_nat (Z.abs (max - min)) in
  if (min >? max) && (step >? 0) then range_down fuel min max step
  else range_up fuel min max step.
(** the other two ways of calling it: `Range(max)` is `return Range(0, max, 1);` and `Range(min, max)` uses the
    default argument `stepsize = 1` of the declaration in Utilities.hpp *)
Definition range1 (max : Z) : option (list Z) := range 0 max 1.
Definition range2 (min max : Z) : option (list Z) := range min max 1.

(** ** List templates (instantiated at int in the harness; any type with decidable equality here) *)
Section Lists.
Context {A : Type} (eqb : A -> A -> bool).
Fixpoint lists_equal (v1 v2 : list A) : bool :=
  match v1, v2 with
  | [], [] => true
  | a :: l1, b :: l2 => if eqb a b then lists_equal l1 l2 else false
  | _, _ => false
  end.
(* the C++ code first compares the sizes, then scans; the result is the same function *)
Definition combine_lists (v1 v2 : list A) : list A := v1 ++ v2.
Fixpoint flatten_list (v : list (list A)) : list A :=
  match v with [] => [] | l :: r => l ++ flatten_list r end.
Fixpoint list_contains (l : list A) (x : A) : bool :=
  match l with [] => false | a :: r => if eqb a x then true else list_contains r x end.
Fixpoint find_indices_from (l : list A) (x : A) (i : Z) : list Z :=
  match l with
  | [] => []
  | a :: r => if eqb a x then i :: find_indices_from r x (i + 1) else find_indices_from r x (i + 1)
  end.
Definition find_indices (l : list A) (x : A) : list Z := find_indices_from l x 0.

(** Sub_List(v, i1, i2): i1 is an int, i2 an unsigned int (the harness passes 0 <= i2 < 2^32). *)
Definition sub_list (v : list A) (i1 i2 : Z) : list A :=
  let i1 := if i1 <? 0 then 0 else i1 in
  let n := Z.of_nat (length v) in
  if (n =? 0) || (i1 >=? n) || (i2 <? i1) then []
  else let i2 := if i2 >=? n then n - 1 else i2 in
       firstn (Z.to_nat (i2 - i1 + 1)) (skipn (Z.to_nat i1) v).

(** Transpose_Lists: an empty list of lists is returned as an empty list (`if(lists.empty()) return {}`). *)
Definition column (d : A) (lists : list (list A)) (j : nat) : list A := map (fun l => nth j l d) lists.
Definition transpose_lists (d : A) (lists : list (list A)) : res (list (list A)) :=
  match lists with
  | [] => Ok []
  | l0 :: rest =>
      let m := length l0 in
      if forallb (fun l => Nat.eqb (length l) m) rest
      then Ok (map (column d lists) (seq 0 m))
      else Exit
  end.
(** the two-list overload: `return Transpose_Lists(std::vector<std::vector<T>> {v1, v2});` *)
Definition transpose_lists2 (d : A) (v1 v2 : list A) : res (list (list A)) := transpose_lists d [v1; v2].
End Lists.
(** the overload of Lists_Equal for lists of lists: sizes, then `Lists_Equal(v1[i], v2[i])` row by row,
    i.e. the same template with the row comparison as the element comparison *)
Definition lists_equal2 {A : Type} (eqb : A -> A -> bool) (v1 v2 : list (list A)) : bool :=
  lists_equal (lists_equal eqb) v1 v2.

(** ** Floating-point helpers *)
Section Num.
Context {T : Type} (Ops : NumOps T).
Declare Scope num_scope.
Local Notation "x + y" := (nadd Ops x y) : num_scope.
Local Notation "x - y" := (nsub Ops x y) : num_scope.
Local Notation "x * y" := (nmul Ops x y) : num_scope.
Local Notation "x / y" := (ndiv Ops x y) : num_scope.
Delimit Scope num_scope with num.

(** Linear_Space(min, max, steps) *)
Definition linear_space (mn mx : T) (steps : nat) : list T :=
  if (Nat.ltb steps 2) || neqb Ops mn mx then [mn]
  else
    let step := ((mx - mn) / (nofZ Ops (Z.of_nat steps) - n1 Ops))%num in
    map (fun i => (mn + nofZ Ops (Z.of_nat i) * step)%num) (seq 0 steps).

(** Log_Space(min, max, steps) *)
Definition log_space (mn mx : T) (steps : nat) : list T :=
  if (Nat.ltb steps 2) || neqb Ops mn mx then [mn]
  else
    let logmin := nln Ops mn in
    let dlog := ((nln Ops mx - logmin) / (nofZ Ops (Z.of_nat steps) - n1 Ops))%num in
    map (fun i => nexp Ops (logmin + nofZ Ops (Z.of_nat i) * dlog)%num) (seq 0 steps).

(** Locate_Closest_Location(sorted_list, target) *)
Fixpoint is_sorted (l : list T) : bool :=
  match l with
  | [] => true
  | a :: r => match r with [] => true | b :: _ => if nltb Ops b a then false else is_sorted r end
  end.
(* std::upper_bound on a sorted range: index of the first element greater than the target *)
Fixpoint upper_bound (l : list T) (t : T) : nat :=
  match l with [] => 0%nat | a :: r => if nltb Ops t a then 0%nat else S (upper_bound r t) end.
Definition closest_location (l : list T) (t : T) : res Z :=
  if Nat.eqb (length l) 0 then Exit              (* "The list is empty." *)
  else if negb (is_sorted l) then Exit           (* "The list is not sorted." *)
  else
    let n := length l in
    let idx := upper_bound l t in
    if Nat.eqb idx n then Ok (Z.of_nat n - 1)
    else if Nat.eqb idx 0 then Ok 0
    else
      let d1 := nabs Ops (nth0 Ops l (idx - 1) - t)%num in
      let d2 := nabs Ops (nth0 Ops l idx - t)%num in
      if nltb Ops d1 d2 then Ok (Z.of_nat idx - 1) else Ok (Z.of_nat idx).

(** Statistics (Statistics.cpp section 5) *)
Definition nsum (l : list T) : T := fold_left (nadd Ops) l (n0 Ops).
Definition nlen (l : list T) : T := nofZ Ops (Z.of_nat (length l)).
Definition arithmetic_mean (l : list T) : T := (n1 Ops * nsum l / nlen l)%num.
Definition variance (l : list T) : T :=
  let m := arithmetic_mean l in
  let v := fold_left (fun acc x => (acc + (x - m) * (x - m))%num) l (n0 Ops) in
  (n1 Ops * v / (nlen l - n1 Ops))%num.
Definition standard_deviation (l : list T) : T := nsqrt Ops (variance l).

(* insertion sort by nltb: the specification of what std::nth_element makes visible *)
Fixpoint insert_sorted (x : T) (l : list T) : list T :=
  match l with [] => [x] | a :: r => if nltb Ops x a then x :: l else a :: insert_sorted x r end.
Definition sort_list (l : list T) : list T := fold_right insert_sorted [] l.
Definition median (l : list T) : T :=
  let s := sort_list l in
  let n := length l in
  if Nat.even n then ((nth0 Ops s (n / 2 - 1) + nth0 Ops s (n / 2)) / nofZ Ops 2)%num
  else nth0 Ops s (n / 2).
(** Median takes its argument by non-const reference and std::nth_element reorders it: the caller's vector is a
    permutation of what it was (which one is unspecified; [sort_list] is the canonical representative).  State of the
    vector after a call, and a second call on the same object: *)
Definition median_state (l : list T) : T * list T := (median l, sort_list l).
Definition median_twice (l : list T) : T * T * list T :=
  let '(m1, l1) := median_state l in
  let '(m2, l2) := median_state l1 in (m1, m2, l2).

(* Weighted_Average on (value, weight) pairs: returns (average, standard error) *)
Definition weighted_average (d : list (T * T)) : T * T :=
  let N := nofZ Ops (Z.of_nat (length d)) in
  let sum := fold_left (fun acc p => (acc + snd p * fst p)%num) d (n0 Ops) in
  let wsum := fold_left (fun acc p => (acc + snd p)%num) d (n0 Ops) in
  let avg := (sum / wsum)%num in
  let wavg := (wsum / N)%num in
  let sq x := npowi Ops x 2 in
  let sum1 := fold_left (fun acc p => (acc + sq (snd p * fst p - avg * wavg))%num) d (n0 Ops) in
  let sum2 := fold_left (fun acc p => (acc + (snd p - wavg) * (snd p * fst p - avg * wavg))%num) d (n0 Ops) in
  let sum3 := fold_left (fun acc p => (acc + sq (snd p - wavg))%num) d (n0 Ops) in
  let se := (N / (N - n1 Ops) / wsum / wsum * (sum1 - nofZ Ops 2 * avg * sum2 + sq avg * sum3))%num in
  (avg, nsqrt Ops se).
(** DataPoint (Statistics.cpp section 4): a (value, weight) pair.  The constructor `DataPoint(double v = 0.0, double w = 1.0)` stores its
    two arguments (the defaults are those of the declaration in Statistics.hpp); operator<, operator> and operator== compare the values
    only: `return (lhs.value < rhs.value);` `return (lhs.value > rhs.value);` `return (lhs.value == rhs.value);` *)
Definition datapoint (v w : T) : T * T := (v, w).
Definition datapoint1 (v : T) : T * T := datapoint v (n1 Ops).
Definition datapoint0 : T * T := datapoint (n0 Ops) (n1 Ops).
Definition dp_lt (lhs rhs : T * T) : bool := nltb Ops (fst lhs) (fst rhs).
Definition dp_gt (lhs rhs : T * T) : bool := nltb Ops (fst rhs) (fst lhs).
Definition dp_eq (lhs rhs : T * T) : bool := neqb Ops (fst lhs) (fst rhs).
(** `DataPoint(double v = 0.0, double w = 1.0)`: data points built from a value only carry the weight 1 *)
Definition weighted_average_default (l : list T) : T * T := weighted_average (map (fun v => (v, n1 Ops)) l).

(** data transformations of the laws (the harness applies the same floating-point operations to the data) *)
Definition scale_data (p : T) (l : list T) : list T := map (fun x => (p * x)%num) l.
Definition shift_data (t : T) (l : list T) : list T := map (fun x => (x + t)%num) l.
Definition rotate_data {B} (k : nat) (l : list B) : list B := skipn k l ++ firstn k l.
Definition scale_values (p : T) (d : list (T * T)) : list (T * T) := map (fun q => ((p * fst q)%num, snd q)) d.
Definition scale_weights (p : T) (d : list (T * T)) : list (T * T) := map (fun q => (fst q, (p * snd q)%num)) d.
Definition shift_values (t : T) (d : list (T * T)) : list (T * T) := map (fun q => ((fst q + t)%num, snd q)) d.

(** One data vector used for several statistics, one after the other (an object history).  Arithmetic_Mean, Variance and
    Standard_Deviation take the vector by const reference and leave it alone; Median takes it by non-const reference and
    reorders it (std::nth_element; [sort_list] is the canonical representative of the permutation it leaves).  The state of
    a history is the vector, the outputs are the answers in the order of the calls. *)
Inductive stat_op : Type := OpMean | OpVariance | OpStddev | OpMedian.
Definition stat_answer (o : stat_op) (l : list T) : T :=
  match o with
  | OpMean => arithmetic_mean l
  | OpVariance => variance l
  | OpStddev => standard_deviation l
  | OpMedian => median l
  end.
Definition stat_step (st : list T * list T) (o : stat_op) : list T * list T :=
  let '(l, outs) := st in
  match o with
  | OpMedian => let '(m, l') := median_state l in (l', outs ++ [m])
  | _ => (l, outs ++ [stat_answer o l])
  end.
Definition stat_history (l : list T) (ops : list stat_op) : list T * list T := fold_left stat_step ops (l, []).
End Num.

(** Sessions: several requests answered one after the other in one process.  No helper of this property reads the
    ambient state of the process - errno, the floating-point exception flags, the state of the standard streams,
    whatever earlier calls of these helpers, of other library facilities or of the caller's own code left there -
    and none keeps a static of its own: a call is [answer req], a function of the request alone.  What a call or an
    unrelated event (a density evaluated far in its tail, a failed stream operation) leaves behind is an arbitrary
    [leaves : Req -> Amb -> Amb]; events of the caller's side are requests whose answer carries no information. *)
Section Session.
Context {Amb Req Out : Type}.
Variable answer : Req -> Out.
Variable leaves : Req -> Amb -> Amb.
Fixpoint session (a : Amb) (rs : list Req) : list Out :=
  match rs with
  | [] => []
  | r :: t => answer r :: session (leaves r a) t
  end.
End Session.
