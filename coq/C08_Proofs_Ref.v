(** * C08 proofs, part 6: the clause "Global_Minimum/Global_Maximum ... so no evaluation ever falls outside them" is FALSE of the
    faithful model for evaluations in the 1 % extrapolation zone that Locate accepts (known finding K-C08-1): a witness. *)
From Coq Require Import Reals ZArith List Bool Lia Lra.
From LP Require Import Num NumR C01_Model C01_Proofs C01_Proofs_Global C08_Model C08_Proofs C08_Proofs_More.
Import ListNotations.
Local Open Scope R_scope.

Definition wxs : list R := [0; 1; 2].
Definition wys : list R := [0; 1; 2].
Lemma w_valid : valid_table wxs wys.
Proof.
  repeat split; cbn; try lia. intros i Hi. cbn in Hi. destruct i as [|[|i]]; cbn; try lra; lia.
Qed.
Lemma w_line : forall i, (i < length wxs)%nat -> nth i wys 0 = 1 * nth i wxs 0 + 0.
Proof. intros i Hi. cbn in Hi. destruct i as [|[|[|i]]]; cbn; try lra; lia. Qed.

Lemma w_accepted x : -1/100 < x < 0 -> nth 0 wxs 0 - tolL wxs < x < nth (length wxs - 1) wxs 0 + tolR wxs.
Proof. intros Hx. unfold tolL, tolR. cbn. lra. Qed.

(* in the zone left of the table the curve of the straight-line table is the straight line continued *)
Lemma w_curve_zone x : -1/100 < x < 0 -> pcurve 1 wxs wys x = x.
Proof.
  intros Hx.
  rewrite (F_seg_zone wxs wys w_valid 1 0 x x x); [| cbn; lia | right; split; [reflexivity|exact (proj1 (w_accepted x Hx))] | left; cbn; lra | lra].
  unfold SEGf, CA, CB, seg, ca, cb.
  rewrite !(line_DY wxs wys w_valid 1 0 w_line) by (cbn; lia).
  rewrite (line_S wxs wys w_valid 1 0 w_line) by (cbn; lia).
  pose proof (Hf_pos wxs wys w_valid 0%nat ltac:(cbn; lia)) as Hp.
  cbn [nth wxs wys]. field. lra.
Qed.

Lemma w_global_min : exists r, global_minimum ROps (ptab 1 wxs wys) = Ok r /\ 0 <= r.
Proof.
  destruct (global_minimum_spec wxs wys w_valid 1) as (r & E & _ & (i & Hi & ->)).
  exists (pcurve 1 wxs wys (nth i wxs 0)). split; [exact E|].
  unfold pcurve, curve.
  assert (Hd : nth 0 wxs 0 <= nth i wxs 0 <= nth (length wxs - 1) wxs 0).
  { cbn in Hi. destruct i as [|[|[|i]]]; cbn; try lra; lia. }
  rewrite (linear_exact wxs wys w_valid 1 0 w_line _ Hd).
  cbn in Hi. destruct i as [|[|[|i]]]; cbn; try lra; lia.
Qed.

(** the full clause for accepted evaluation points fails: a valid table, a prefactor, an accepted point x, the value v Interpolate
    returns there and the value r Global_Minimum returns, with v < r *)
Theorem global_bound_accepted_points_refuted :
  exists xs ys c x v r, valid_table xs ys /\
    nth 0 xs 0 - tolL xs < x < nth (length xs - 1) xs 0 + tolR xs /\
    interpolate ROps (ptab c xs ys) x = Ok v /\ global_minimum ROps (ptab c xs ys) = Ok r /\ v < r.
Proof.
  destruct w_global_min as (r & E & Hr).
  assert (Hx : -1/100 < -1/200 < 0) by lra.
  exists wxs, wys, 1, (-1/200), (-1/200), r.
  split; [exact w_valid|]. split; [exact (w_accepted _ Hx)|]. split; [|split; [exact E|lra]].
  rewrite (interpolate_ptab_zone wxs wys w_valid 1 _ (w_accepted _ Hx)). f_equal. exact (w_curve_zone _ Hx).
Qed.
