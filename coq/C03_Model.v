(** * C03 model: adaptive Simpson integration (src/Integration.cpp, section 1.1):
    Adaptive_Simpson_Integration, Check_Integration_Limits, Integrate(func,a,b,epsilon,maxRecursionDepth).
    Hand-written, line by line; tied to the code by the differential correspondence check
    (harness/C03.cpp vs the extraction of this file).  The integrand is a plain function argument;
    the list of abscissae at which it is called is part of the result (in call order, the left
    recursive call first: C++ leaves the order of the two operands of [+] unspecified, so the check
    compares the traces as multisets). *)
From Coq Require Import ZArith List Bool.
From LP Require Import Num.
Import ListNotations.

Section Model.
Context {T : Type} (Ops : NumOps T).
Declare Scope num_scope.
Local Notation "x + y" := (nadd Ops x y) : num_scope.
Local Notation "x - y" := (nsub Ops x y) : num_scope.
Local Notation "x * y" := (nmul Ops x y) : num_scope.
Local Notation "x / y" := (ndiv Ops x y) : num_scope.
Local Open Scope num_scope.
Local Notation "'#' k" := (nofZ Ops k) (at level 1, format "'#' k").

(** double Adaptive_Simpson_Integration(func, a, b, epsilon, S, fa, fb, fc, int bottom, bool& warning)
<<
	double c = (a + b) / 2;  double h = b - a;  double d = (a + c) / 2;  double e = (b + c) / 2;
	double fd = func(d);  double fe = func(e);
	double Sleft  = (h / 12) * (fa + 4 * fd + fc);
	double Sright = (h / 12) * (fc + 4 * fe + fb);
	double S2 = Sleft + Sright;
	if(bottom <= 0 || fabs(S2 - S) <= 15 * epsilon)
	{   if(bottom <= 0 && fabs(S2 - S) > 15 * epsilon) warning = true;
		return S2 + (S2 - S) / 15;   }
	else return ASI(func, a, c, epsilon / 2, Sleft, fa, fc, fd, bottom - 1, warning)
	          + ASI(func, c, b, epsilon / 2, Sright, fc, fb, fe, bottom - 1, warning);
>>
    [bottom : nat] is the structural argument ([bottom <= 0] is [bottom = O]; a negative int depth enters as 0).
    Result: (value, warning flag, abscissae of the calls of func). *)
Fixpoint asr (f : T -> T) (bottom : nat) (a b eps S fa fb fc : T) {struct bottom} : T * bool * list T :=
  let c := (a + b) / #2 in
  let h := b - a in
  let d := (a + c) / #2 in
  let e := (b + c) / #2 in
  let fd := f d in
  let fe := f e in
  let Sleft := (h / #12) * (fa + #4 * fd + fc) in
  let Sright := (h / #12) * (fc + #4 * fe + fb) in
  let S2 := Sleft + Sright in
  match bottom with
  | O => (S2 + (S2 - S) / #15, ngtb Ops (nabs Ops (S2 - S)) (#15 * eps), [d; e])
  | S n =>
      if nleb Ops (nabs Ops (S2 - S)) (#15 * eps) then (S2 + (S2 - S) / #15, false, [d; e])
      else
        let '(v1, w1, t1) := asr f n a c (eps / #2) Sleft fa fc fd in
        let '(v2, w2, t2) := asr f n c b (eps / #2) Sright fc fb fe in
        (v1 + v2, w1 || w2, d :: e :: t1 ++ t2)
  end.

(** double Integrate(func, a, b, epsilon, int maxRecursionDepth)
<<
	double sign = +1.0;
	if(a == b) return 0.0;
	else Check_Integration_Limits(a, b, sign);       // if(a > b) { swap(a, b); sign = -1.0; }
	double c = (a + b) / 2;  double h = b - a;
	double fa = func(a);  double fb = func(b);  double fc = func(c);
	double S = (h / 6) * (fa + 4 * fc + fb);
	bool warning = false;
	double result = ASI(func, a, b, fabs(epsilon), S, fa, fb, fc, maxRecursionDepth, warning);
	...warnings on stdout...
	return sign * result;
>> *)
Definition integrate (f : T -> T) (a b eps : T) (depth : Z) : T * bool * list T :=
  if neqb Ops a b then (n0 Ops, false, [])
  else
    let swap := ngtb Ops a b in
    let a' := if swap then b else a in
    let b' := if swap then a else b in
    let sign := if swap then nneg Ops (n1 Ops) else n1 Ops in
    let c := (a' + b') / #2 in
    let h := b' - a' in
    let fa := f a' in
    let fb := f b' in
    let fc := f c in
    let S := (h / #6) * (fa + #4 * fc + fb) in
    let '(result, w, t) := asr f (Z.to_nat depth) a' b' (nabs Ops eps) S fa fb fc in
    (sign * result, w, a' :: b' :: c :: t).

(** double Find_Epsilon(func, a, b, precision): the Simpson estimate scaled by the requested relative precision. *)
Definition find_epsilon (f : T -> T) (a b precision : T) : T :=
  let c := (a + b) / #2 in
  let h := b - a in
  let fa := f a in
  let fb := f b in
  let fc := f c in
  let S := (h / #6) * (fa + #4 * fc + fb) in
  precision * S.

(** Integrate(func, a, b, epsilon): the declaration gives maxRecursionDepth the default value 20
    (include/libphysica/Integration.hpp: [int maxRecursionDepth = 20]). *)
Definition integrate_default (f : T -> T) (a b eps : T) : T * bool * list T :=
  integrate f a b eps 20%Z.

(** double Integrate(func, a, b, const std::string& method, int method_parameter) with method = "Adaptive-Simpson"
<<
	double sign = 1.0;
	if(a == b) return 0.0;
	else Check_Integration_Limits(a, b, sign);
	...
	else if(method == "Adaptive-Simpson")
	{	double eps = Find_Epsilon(func, a, b, 1e-9);
		return sign * Integrate(func, a, b, eps);	}
>>
    The trace lists the three evaluations of Find_Epsilon (a, b, midpoint) followed by those of Integrate. *)
Definition integrate_method (f : T -> T) (a b : T) : T * bool * list T :=
  if neqb Ops a b then (n0 Ops, false, [])
  else
    let swap := ngtb Ops a b in
    let a' := if swap then b else a in
    let b' := if swap then a else b in
    let sign := if swap then nneg Ops (n1 Ops) else n1 Ops in
    let eps := find_epsilon f a' b' (ndec Ops 1 1000000000) in
    let '(v, w, t) := integrate_default f a' b' eps in
    (sign * v, w, a' :: b' :: (a' + b') / #2 :: t).

(** ** Sequences of calls in one process.
    Section 1.1 of Integration.cpp has no file-scope or function-scope static and the functions take the integrand
    by value: nothing survives a call.  In the [step : state -> op -> state * out] form of the guide the state is
    [unit]; the differential check runs whole sequences through the library in one process and compares every
    answer with [run_seq], i.e. with the answer of the same call made alone. *)
Inductive call : Type :=
| CInt  (f : T -> T) (a b eps : T) (depth : Z)     (* Integrate(f,a,b,eps,depth) *)
| CDef  (f : T -> T) (a b eps : T)                 (* Integrate(f,a,b,eps) *)
| CMeth (f : T -> T) (a b : T)                     (* Integrate(f,a,b,"Adaptive-Simpson") *)
| CFind (f : T -> T) (a b precision : T).          (* Find_Epsilon(f,a,b,precision) *)

Definition run_call (c : call) : T * bool * list T :=
  match c with
  | CInt f a b eps depth => integrate f a b eps depth
  | CDef f a b eps => integrate_default f a b eps
  | CMeth f a b => integrate_method f a b
  | CFind f a b p => (find_epsilon f a b p, false, [a; b; (a + b) / #2])
  end.

Definition step (st : unit) (c : call) : unit * (T * bool * list T) := (st, run_call c).

Fixpoint run_seq (st : unit) (cs : list call) : list (T * bool * list T) :=
  match cs with
  | [] => []
  | c :: r => let '(st', o) := step st c in o :: run_seq st' r
  end.

(** ** Calls abandoned by their integrand.
    An integrand may end the call that evaluates it by throwing an exception (the library is exception-neutral: it has
    no try/catch in section 1.1).  A request [(c, k)] is the call [c] whose integrand throws at its [k]-th evaluation
    ([k = 0]: it never throws).  When [c] makes at least [k] evaluations the call is abandoned and there is no answer
    ([None]); otherwise it completes and is answered as usual.  Nothing is left behind in either case: the state stays [tt]. *)
Definition run_call_ab (c : call) (k : nat) : option (T * bool * list T) :=
  let r := run_call c in
  if (Nat.leb 1 k && Nat.leb k (length (snd r)))%bool then None else Some r.

Definition step_ab (st : unit) (ck : call * nat) : unit * option (T * bool * list T) :=
  (st, run_call_ab (fst ck) (snd ck)).

Fixpoint run_seq_ab (st : unit) (cs : list (call * nat)) : list (option (T * bool * list T)) :=
  match cs with
  | [] => []
  | c :: r => let '(st', o) := step_ab st c in o :: run_seq_ab st' r
  end.

(** ** Re-entrant integrands.
    An integrand may itself use the integrator (Integrate_2D(...,"Adaptive-Simpson") nests Integrate in exactly this
    way; so does an integrand written with GammaQ or a normalised pdf): at the abscissa [x] it makes the call [mk x]
    (any of the four kinds, with its own integrand, limits, epsilon and depth, all of which may depend on [x]) and
    returns [E x J] where [J] is the value that call returned.  Integrate takes the integrand by value and section 1.1
    keeps nothing between or across calls, so in the model this is plain composition of functions: the inner call is
    evaluated as if it were made alone, and the outer call sees an ordinary function [T -> T]. *)
Definition reentrant (mk : T -> call) (E : T -> T -> T) : T -> T :=
  fun x => E x (fst (fst (run_call (mk x)))).
End Model.
